(* PC18reloc.v — relocation at the PROGRAM level.  Two programs that differ only in the operand of their leading ORG
   statement (origins a and a', D = a' - a) and have no other ORG:
     - every statement gets the same size, the same opcode and post byte (the size loop never looks at an address);
     - every address moves by exactly D;
     - a branch or a label,PCR / label+-n,PCR operand keeps its displacement;
     - an absolute reference to a label (label, label+n, n+label, label-n) moves by exactly D, a difference of two
       labels does not move; every operand without a label is unchanged;
     - a label in the symbol table moves by D, an EQU constant does not.                                          *)
From V Require Import Base.
From V.model Require Import MText MValues MOperands MProgram.
From V.proofs Require Import PLayout PFrames PContig PC02 PRender PC03 PC05 PC05list PC18 PC01text PC11origin.
From V.gen Require Tables.
From Coq Require Import ZifyNat ZifyN ZifyBool.
Local Open Scope N_scope.
Ltac Zify.zify_post_hook ::= Z.div_mod_to_equations.

(* ====================================================================================================== *)
(* 1. up to the size loop: a statement whose size is decided matters to the others only by its size        *)
(* ====================================================================================================== *)
Definition pkg_but_addr (p p' : codepkg) : Prop :=
  cp_op p' = cp_op p /\ cp_post p' = cp_post p /\ cp_add p' = cp_add p /\ cp_size p' = cp_size p /\
  cp_needs p' = cp_needs p /\ cp_choices p' = cp_choices p /\ cp_max p' = cp_max p.

(* equal, or two decided statements that differ only in their own address, operand and operand text (the ORG) *)
Definition O (s s' : stmt) : Prop :=
  s' = s \/ (s_fixed s = true /\ s_fixed s' = true /\ s_label s' = s_label s /\ s_instr s' = s_instr s /\
             s_hint s' = s_hint s /\ pkg_but_addr (s_pkg s) (s_pkg s') /\ Tables.is_origin (s_instr s) = true).

Lemma O_refl s : O s s. Proof. now left. Qed.
Lemma O_fixed s s' : O s s' -> s_fixed s' = s_fixed s.
Proof. intros [-> | (A & B & _)]; congruence. Qed.
Lemma O_size s s' : O s s' -> cp_size (s_pkg s') = cp_size (s_pkg s) /\ cp_max (s_pkg s') = cp_max (s_pkg s).
Proof. intros [-> | (_ & _ & _ & _ & _ & (_ & _ & _ & A & _ & _ & B) & _)]; auto. Qed.
Lemma O_unfixed s s' : O s s' -> s_fixed s = false -> s' = s.
Proof. intros [-> | (A & _)] H; [reflexivity | congruence]. Qed.

Lemma Forall2_nth {A B} (R : A -> B -> Prop) l l' : Forall2 R l l' -> forall k,
  match nth_error l k, nth_error l' k with Some a, Some b => R a b | None, None => True | _, _ => False end.
Proof. induction 1 as [|a b l l' Hab _ IH]; intros [|k]; cbn [nth_error]; auto. apply IH. Qed.

Lemma Forall2_len {A B} (R : A -> B -> Prop) l l' : Forall2 R l l' -> length l = length l'.
Proof. induction 1; cbn [length]; congruence. Qed.

Lemma sum_range_O f : (forall s s', O s s' -> f s' = f s) -> forall l l', Forall2 O l l' ->
  forall c from, sum_range f l' from c = sum_range f l from c.
Proof.
  intros Hf l l' H. induction c as [|c IH]; intros from; cbn [sum_range]; [reflexivity|]. rewrite IH. f_equal.
  pose proof (Forall2_nth O l l' H from) as Hn. destruct (nth_error l from), (nth_error l' from); try contradiction; auto.
Qed.

Lemma Forall2_update {A} (R : A -> A -> Prop) : forall l l' k a a', Forall2 R l l' -> R a a' ->
  Forall2 R (update_nth k a l) (update_nth k a' l').
Proof.
  intros l l' k a a' H Ha. revert k. induction H as [|x y l l' Hxy Ht IH]; intros k; destruct k; cbn [update_nth]; constructor; auto.
Qed.

Lemma pcr_span_O ss ss' k s : Forall2 O ss ss' -> pcr_span ss' k s = pcr_span ss k s.
Proof.
  intros H. unfold pcr_span. destruct (if rel_index_of s <? k then _ else _) as [from count].
  rewrite (sum_range_O (fun x => cp_size (s_pkg x)) (fun a b Hab => proj1 (O_size a b Hab)) ss ss' H).
  rewrite (sum_range_O (fun x => cp_max (s_pkg x)) (fun a b Hab => proj2 (O_size a b Hab)) ss ss' H). reflexivity.
Qed.

Lemma determine_O ss ss' k force s : Forall2 O ss ss' -> determine ss' k force s = determine ss k force s.
Proof. intros H. unfold determine. now rewrite (pcr_span_O ss ss' k s H). Qed.

Lemma sweep_O : forall n k ss ss' pr r, Forall2 O ss ss' -> sweep n k ss pr = Ok r ->
  exists ss1', sweep n k ss' pr = Ok (ss1', snd r) /\ Forall2 O (fst r) ss1'.
Proof.
  induction n as [|n IH]; intros k ss ss' pr r H Hs; cbn [sweep] in *.
  - inversion Hs; subst. exists ss'. auto.
  - pose proof (Forall2_nth O ss ss' H k) as Hn. destruct (nth_error ss k) as [s|], (nth_error ss' k) as [s'|]; try contradiction.
    + rewrite (O_fixed _ _ Hn). destruct (s_fixed s) eqn:Ef; [eapply IH; eauto|].
      rewrite (O_unfixed _ _ Hn Ef). rewrite (determine_O ss ss' _ _ s H).
      apply bind_ok in Hs as [s1 [Hd Hs]]. rewrite Hd. cbn [bind]. eapply IH; [|exact Hs].
      apply Forall2_update; [exact H | apply O_refl].
    + inversion Hs; subst. exists ss'. auto.
Qed.

Lemma all_fixed_O ss ss' : Forall2 O ss ss' -> all_fixed ss' = all_fixed ss.
Proof. unfold all_fixed. induction 1 as [|a b l l' Hab _ IH]; [reflexivity|]. cbn [forallb]. now rewrite (O_fixed _ _ Hab), IH. Qed.

Lemma first_unfixed_O : forall ss ss' k, Forall2 O ss ss' ->
  match first_unfixed ss k, first_unfixed ss' k with
  | Some (i, s), Some (i', s') => i' = i /\ s' = s
  | None, None => True
  | _, _ => False
  end.
Proof.
  intros ss ss' k H. revert k. induction H as [|a b l l' Hab _ IH]; intros k; cbn [first_unfixed]; [exact I|].
  rewrite (O_fixed _ _ Hab). destruct (s_fixed a) eqn:Ef; [apply IH|]. split; [reflexivity | exact (O_unfixed _ _ Hab Ef)].
Qed.

Lemma size_loop_O : forall fuel ss ss' r, Forall2 O ss ss' -> size_loop fuel ss = Ok r ->
  exists r', size_loop fuel ss' = Ok r' /\ Forall2 O r r'.
Proof.
  induction fuel as [|f IH]; intros ss ss' r H Hs; cbn [size_loop] in *; rewrite (all_fixed_O ss ss' H).
  - destruct (all_fixed ss); [|discriminate]. inversion Hs; subst. eauto.
  - destruct (all_fixed ss); [inversion Hs; subst; eauto|].
    apply bind_ok in Hs as [[ss1 pr] [Hsw Hs]].
    assert (Hlen : length ss' = length ss) by (symmetry; eapply Forall2_len; eauto).
    rewrite Hlen. destruct (sweep_O _ _ _ ss' _ _ H Hsw) as (ss1' & Hsw' & H1). cbn [fst snd] in *. rewrite Hsw'. cbn [bind].
    destruct pr; [eapply IH; eauto|].
    pose proof (first_unfixed_O ss1 ss1' 0 H1) as Hfu.
    destruct (first_unfixed ss1 0) as [[i s]|], (first_unfixed ss1' 0) as [[i' s']|]; try contradiction.
    + destruct Hfu as [-> ->]. rewrite (determine_O ss1 ss1' _ _ s H1).
      apply bind_ok in Hs as [s1 [Hd Hs]]. rewrite Hd. cbn [bind]. eapply IH; [|exact Hs].
      apply Forall2_update; [exact H1 | apply O_refl].
    + eapply IH; eauto.
Qed.

Lemma O_tail_eq : forall l l', Forall2 O l l' -> Forall (fun s => Tables.is_origin (s_instr s) = false) l -> l' = l.
Proof.
  induction 1 as [|a b l l' Hab _ IH]; intros Hn; [reflexivity|]. inversion Hn as [|? ? Ha Hl]; subst.
  rewrite (IH Hl). destruct Hab as [-> | (_ & _ & _ & _ & _ & _ & Ho)]; [reflexivity | congruence].
Qed.

(* ====================================================================================================== *)
(* 2. the address pass: everything moves by D                                                              *)
(* ====================================================================================================== *)
Definition shifted (D : Z) (v v' : value) : Prop :=
  exists x x', v = VNum x /\ v' = VNum x' /\ n_neg x = false /\ n_neg x' = false /\ Z.of_N (n_int x') = (Z.of_N (n_int x) + D)%Z.

Definition A (D : Z) (s s' : stmt) : Prop :=
  s_label s' = s_label s /\ s_instr s' = s_instr s /\ s_fixed s' = s_fixed s /\ s_hint s' = s_hint s /\
  pkg_but_addr (s_pkg s) (s_pkg s') /\ shifted D (cp_addr (s_pkg s)) (cp_addr (s_pkg s')) /\
  (Tables.is_origin (s_instr s) = false -> s_operand s' = s_operand s /\ s_opstr s' = s_opstr s).

Lemma pkg_but_addr_refl p : pkg_but_addr p p. Proof. unfold pkg_but_addr. repeat split. Qed.

Lemma assign_tail : forall rest a a' em em' r r',
  Forall (fun s => v_is_none (cp_addr (s_pkg s)) = true) rest ->
  assign_addresses rest a em = Ok r -> assign_addresses rest a' em' = Ok r' ->
  Forall2 (A (Z.of_N a' - Z.of_N a)) r r'.
Proof.
  induction rest as [|s rest IH]; intros a a' em em' r r' Hn H H'.
  - cbn in H, H'. inversion H; inversion H'; subst. constructor.
  - inversion Hn as [|? ? Hs Hrest]; subst.
    cbn [assign_addresses] in H, H'. rewrite Hs in H, H'.
    apply bind_ok in H as [[av x] [Hpa H]]. apply bind_ok in H' as [[av' x'] [Hpa' H']].
    apply bind_ok in Hpa as [y [Hy Hpa]]. inversion Hpa; subst av x. clear Hpa.
    apply bind_ok in Hpa' as [y' [Hy' Hpa']]. inversion Hpa'; subst av' x'. clear Hpa'.
    rewrite N.eqb_refl in H, H'. cbn [negb] in H, H'. rewrite andb_false_r in H, H'.
    apply bind_ok in H as [t [Ht H]]. apply bind_ok in H' as [t' [Ht' H']]. inversion H; inversion H'; subst. clear H H'.
    apply as_te_ok in Hy. apply as_te_ok in Hy'.
    destruct (numv_ok _ _ Hy) as (n & -> & Hn1 & Hg). destruct (numv_ok _ _ Hy') as (n' & -> & Hn1' & Hg').
    constructor.
    + unfold A, set_pkg. cbn. repeat split; auto. exists n, n'. repeat split; auto. lia.
    + replace (Z.of_N a' - Z.of_N a)%Z with (Z.of_N (a' + cp_size (s_pkg s)) - Z.of_N (a + cp_size (s_pkg s)))%Z by lia.
      eapply IH; eauto.
Qed.

(* ====================================================================================================== *)
(* 3. values that contain labels move by their label coefficient times D                                   *)
(* ====================================================================================================== *)
(* the own addresses of two statements differ by D *)
Definition Sh (D : Z) (s s' : stmt) : Prop := shifted D (cp_addr (s_pkg s)) (cp_addr (s_pkg s')).
Lemma A_Sh D l l' : Forall2 (A D) l l' -> Forall2 (Sh D) l l'.
Proof. induction 1 as [|a b l l' Hab _ IH]; constructor; [|exact IH]. destruct Hab as (_ & _ & _ & _ & _ & Hs & _). exact Hs. Qed.

Section Sizes.
Variable D : Z.
Variables all all' : list stmt.
Hypothesis Hall : Forall2 (A D) all all'.
Lemma A_size s s' : A D s s' -> cp_size (s_pkg s') = cp_size (s_pkg s).
Proof. intros (_ & _ & _ & _ & (_ & _ & _ & E & _) & _). exact E. Qed.
Lemma sum_sizes_A : forall c from,
  sum_range (fun x => cp_size (s_pkg x)) all' from c = sum_range (fun x => cp_size (s_pkg x)) all from c.
Proof.
  induction c as [|c IH]; intros from; cbn [sum_range]; [reflexivity|]. rewrite IH. f_equal.
  pose proof (Forall2_nth (A D) all all' Hall from) as Hn.
  destruct (nth_error all from), (nth_error all' from); try contradiction; [now apply A_size | reflexivity].
Qed.
End Sizes.

Section Shift.
Variable D : Z.
Variables all all' : list stmt.
Hypothesis Hall : Forall2 (Sh D) all all'.

Lemma addr_of_A k a : addr_of all k = Ok a -> exists a', addr_of all' k = Ok a' /\ Z.of_N a' = (Z.of_N a + D)%Z.
Proof.
  unfold addr_of, nth_stmt. pose proof (Forall2_nth (Sh D) all all' Hall (N.to_nat k)) as Hn.
  destruct (nth_error all (N.to_nat k)) as [s|], (nth_error all' (N.to_nat k)) as [s'|]; try contradiction; try discriminate.
  destruct Hn as (x & x' & Ex & Ex' & _ & _ & Hd). rewrite Ex, Ex'. cbn [v_int]. intros H. inversion H; subst. eauto.
Qed.

(* the coefficient of the program's position in a term / an expression *)
Definition coef (v : value) : Z := match v with VAddr _ => 1%Z | _ => 0%Z end.
Definition coef_expr (l : value) (op : N) (r : value) : Z := if op =? 43 then (coef l + coef r)%Z else (coef l - coef r)%Z.

(* a term that is not itself label arithmetic; an expression of two such terms joined by + or - *)
Definition flat (v : value) : Prop := match v with VExpr _ _ _ _ true => False | _ => True end.
Definition ops_ok (l : value) (op : N) (r : value) : Prop := (op = 43 \/ op = 45) /\ flat l /\ flat r.

Lemma term_value_A v z : flat v -> term_value all v = Ok z -> exists z', term_value all' v = Ok z' /\ z' = (z + coef v * D)%Z.
Proof.
  intros Hf. destruct v as [ | vn | nm vm | idx | el eo er em [] | xl xr xm | str | hx | ]; try contradiction;
    cbn [term_value coef]; try (intros H; injection H as <-; eexists; split; [reflexivity | rewrite Z.mul_0_l, Z.add_0_r; reflexivity]).
  intros H. apply bind_ok in H as [a [Ha H]]. inversion H; subst. destruct (addr_of_A _ _ Ha) as (a' & Ha' & Hd).
  rewrite Ha'. cbn [bind]. eexists. split; [reflexivity | lia].
Qed.

Lemma calc_offset_z_A l op r z : ops_ok l op r -> calc_offset_z all l op r = Ok z ->
  exists z', calc_offset_z all' l op r = Ok z' /\ z' = (z + coef_expr l op r * D)%Z.
Proof.
  intros (Hop & Fl & Fr) H. unfold calc_offset_z, offset_arith in *. apply bind_ok in H as [a [Ha H]]. apply bind_ok in H as [b [Hb H]].
  destruct (term_value_A _ _ Fl Ha) as (a' & Ha' & Ea). destruct (term_value_A _ _ Fr Hb) as (b' & Hb' & Eb).
  rewrite Ha', Hb'. cbn [bind]. unfold coef_expr. destruct Hop as [-> | ->].
  - change (43 =? 43) with true in *. cbv iota in *. inversion H; subst. eexists. split; [reflexivity | lia].
  - change (45 =? 43) with false in *. change (45 =? 45) with true in *. cbv iota in *. inversion H; subst. eexists. split; [reflexivity | lia].
Qed.

Lemma calc_offset_A l op r v v' : ops_ok l op r -> calc_offset all l op r = Ok v -> calc_offset all' l op r = Ok v' ->
  value_number v' = (value_number v + coef_expr l op r * D)%Z.
Proof.
  intros Hop H H'. unfold calc_offset in *. apply bind_ok in H as [z [Hz H]]. apply bind_ok in H as [n [Hn H]]. inversion H; subst v.
  apply bind_ok in H' as [z' [Hz' H']]. apply bind_ok in H' as [n' [Hn' H']]. inversion H'; subst v'.
  destruct (calc_offset_z_A _ _ _ _ Hop Hz) as (z2 & Hz2 & E).
  assert (Ez : z' = z2) by (rewrite Hz2 in Hz'; now inversion Hz').
  apply as_te_ok in Hn. apply as_te_ok in Hn'.
  change (value_number (VNum n')) with (num_val n'). change (value_number (VNum n)) with (num_val n).
  rewrite (num_of_Z_val _ _ _ _ Hn), (num_of_Z_val _ _ _ _ Hn'), Ez. exact E.
Qed.
End Shift.

(* fit_value keeps the number and depends on nothing else *)
Lemma fit_value_val v d sg a : fit_value v d sg = Ok a -> value_number a = value_number v.
Proof.
  unfold fit_value. fold (value_number v). destruct (_ || _); [discriminate|]. intros H. apply bind_ok in H as [n [Hn H]]. inversion H; subst.
  change (value_number (VNum n)) with (num_val n). exact (num_of_Z_val _ _ _ _ Hn).
Qed.

Lemma fit_value_same v v' d sg : value_number v = value_number v' -> fit_value v d sg = fit_value v' d sg.
Proof. intros E. unfold fit_value. fold (value_number v). fold (value_number v'). now rewrite E. Qed.

(* ====================================================================================================== *)
(* 4. fix_addresses                                                                                        *)
(* ====================================================================================================== *)
Definition readdr (v : value) (s : stmt) : stmt :=
  let p := s_pkg s in
  set_pkg s {| cp_op := cp_op p; cp_addr := v; cp_post := cp_post p; cp_add := cp_add p; cp_size := cp_size p;
               cp_needs := cp_needs p; cp_choices := cp_choices p; cp_max := cp_max p |} (s_fixed s) (s_hint s).

Lemma with_add_readdr v s a : with_add (readdr v s) a = readdr v (with_add s a).
Proof. reflexivity. Qed.

(* fix_addresses never reads the statement's own address field: it is carried along *)
Ltac fix_tail all k s :=
  cbn [bind]; cbn [readdr with_add set_pkg s_pkg cp_add];
  destruct (addr_offset (s_pkg s));
  [ match goal with |- context [match operand_left (s_operand s) with _ => _ end] => idtac end;
    destruct (operand_left (s_operand s)) as [[?|[]]|]; cbn [bind];
    repeat match goal with
    | |- context [match ?addr with true => _ | false => _ end] => is_var addr; destruct addr
    end;
    repeat match goal with
    | |- context [calc_offset all ?l ?op ?r] => destruct (calc_offset all l op r); cbn [bind]; try reflexivity
    | |- context [match nth_stmt all ?i with _ => _ end] => destruct (nth_stmt all i); cbn [bind]; try reflexivity
    | |- context [match cp_addr (s_pkg ?t) with _ => _ end] => destruct (cp_addr (s_pkg t)); cbn [bind]; try reflexivity
    | |- context [as_translation_error ?x] => destruct (as_translation_error x); cbn [bind]; try reflexivity
    end; try reflexivity
  | destruct (cp_needs (s_pkg s)); [|reflexivity];
    destruct (operand_left (s_operand s)) as [[?|[]]|]; cbn [bind];
    repeat match goal with
    | |- context [match ?addr with true => _ | false => _ end] => is_var addr; destruct addr
    end;
    repeat match goal with
    | |- context [calc_offset all ?l ?op ?r] => destruct (calc_offset all l op r); cbn [bind]; try reflexivity
    | |- context [addr_of all ?i] => destruct (addr_of all i); cbn [bind]; try reflexivity
    | |- context [as_translation_error ?x] => destruct (as_translation_error x); cbn [bind]; try reflexivity
    end; try reflexivity ].

Lemma fix_readdr all k v s : fix_stmt all k (readdr v s) = (do t <- fix_stmt all k s; Ok (readdr v t)).
Proof.
  unfold fix_stmt. change (s_operand (readdr v s)) with (s_operand s). change (s_instr (readdr v s)) with (s_instr s).
  change (s_hint (readdr v s)) with (s_hint s).
  change (cp_add (s_pkg (readdr v s))) with (cp_add (s_pkg s)). change (cp_size (s_pkg (readdr v s))) with (cp_size (s_pkg s)).
  change (cp_needs (s_pkg (readdr v s))) with (cp_needs (s_pkg s)).
  change (addr_offset (s_pkg (readdr v s))) with (addr_offset (s_pkg s)).
  destruct (is_relative_op (s_operand s)).
  - destruct (_ <=? _).
    + destruct (_ && _); [reflexivity|]. destruct (as_translation_error _); reflexivity.
    + destruct (_ && _); [reflexivity|]. destruct (as_translation_error _); reflexivity.
  - destruct (operand_value (s_operand s)) eqn:Eov; try reflexivity.
    all: try (fix_tail all k s; fail).
    + (* a label *)
      destruct (nth_stmt all idx) as [t|]; [|reflexivity].
      destruct (cp_addr (s_pkg t)); try reflexivity; cbn [bind].
      all: match goal with |- context [as_translation_error ?x] => destruct (as_translation_error x); cbn [bind]; try reflexivity end.
      all: rewrite with_add_readdr; fix_tail all k s.
    + (* label arithmetic *)
      match goal with |- context [if ?b then _ else Ok _] => is_var b; destruct b; [|fix_tail all k s] end.
      match goal with |- context [calc_offset all ?a ?o ?b] => destruct (calc_offset all a o b); cbn [bind]; try reflexivity end.
      match goal with |- context [as_translation_error ?x] => destruct (as_translation_error x); cbn [bind]; try reflexivity end.
      rewrite with_add_readdr; fix_tail all k s.
Qed.

(* what a statement's operand bytes hold, as a multiple of the program's position *)
Definition coef_value (v : value) : Z :=
  match v with VAddr _ => 1%Z | VExpr l op r _ true => coef_expr l op r | _ => 0%Z end.
Definition coef_stmt (s : stmt) : Z :=
  if is_relative_op (s_operand s) then 0%Z
  else if addr_offset (s_pkg s) then
    match operand_left (s_operand s) with Some (LVal (VExpr l op r _ true)) => coef_expr l op r | _ => 1%Z end
  else if cp_needs (s_pkg s) then 0%Z
  else coef_value (operand_value (s_operand s)).

(* label arithmetic is + or - only, and a PC-relative target holds exactly one label positively (label, label+n,
   n+label, label-n) *)
Definition reloc_ok (s : stmt) : Prop :=
  (forall l op r m, operand_value (s_operand s) = VExpr l op r m true -> ops_ok l op r) /\
  (forall l op r m, operand_left (s_operand s) = Some (LVal (VExpr l op r m true)) ->
     ops_ok l op r /\ (addr_offset (s_pkg s) = false -> coef_expr l op r = 1%Z)).
(* an operand that is resolved after layout through its left part has no label in its value *)
Definition needs_ok (s : stmt) : Prop :=
  (addr_offset (s_pkg s) = true \/ cp_needs (s_pkg s) = true) ->
  match operand_value (s_operand s) with VAddr _ | VExpr _ _ _ _ true => False | _ => True end.

Definition same_but_add (t t2 : stmt) : Prop := t2 = with_add t (cp_add (s_pkg t2)).

Lemma nth_stmt_A D all all' k t : Forall2 (Sh D) all all' -> nth_stmt all k = Some t ->
  exists t', nth_stmt all' k = Some t' /\ shifted D (cp_addr (s_pkg t)) (cp_addr (s_pkg t')).
Proof.
  intros Hall. unfold nth_stmt. pose proof (Forall2_nth (Sh D) all all' Hall (N.to_nat k)) as Hn.
  destruct (nth_error all (N.to_nat k)) as [s|], (nth_error all' (N.to_nat k)) as [s'|]; try contradiction; try discriminate.
  intros H. inversion H; subst. exists s'. split; [reflexivity | exact Hn].
Qed.

Lemma shifted_number D v v' : shifted D v v' -> value_number v' = (value_number v + D)%Z /\ v <> VPyNone /\ v' <> VPyNone.
Proof.
  intros (x & x' & -> & -> & Hn & Hn' & Hd). unfold value_number. cbn [v_negative v_int]. rewrite Hn, Hn'.
  split; [exact Hd|]. split; discriminate.
Qed.

(* fix_addresses for a statement that is not a branch, in two steps: the operand value, then the left part *)
Definition fix_digits (s : stmt) : N :=
  match s_operand s with
  | OImmediate _ => imm_digits (s_instr s)
  | OPseudo _ _ => if Tables.is_multi_byte (s_instr s) then 2 else 4
  | ODirect _ => 2
  | _ => 4 end.
Definition fix_signed (s : stmt) : bool := match s_operand s with ODirect _ => false | _ => true end.

Definition fix_head (all : list stmt) (s : stmt) : res stmt :=
  match operand_value (s_operand s) with
  | VExpr l op r _ true =>
      do a <- calc_offset all l op r; do a' <- as_translation_error (fit_value a (fix_digits s) (fix_signed s)); Ok (with_add s a')
  | VAddr k => match nth_stmt all k with
               | Some t => match cp_addr (s_pkg t) with
                           | VPyNone => Internal E_ATTR
                           | av => do a' <- as_translation_error (fit_value av (fix_digits s) true); Ok (with_add s a')
                           end
               | None => Internal E_INDEX
               end
  | _ => Ok s
  end.

Definition fix_rest (all : list stmt) (this : N) (s s1 : stmt) : res stmt :=
  let p := s_pkg s in
  if addr_offset p then
    do tv <- (match operand_left (s_operand s) with
              | Some (LVal (VExpr l op r _ true)) => calc_offset all l op r
              | _ => match nth_stmt all (v_int (cp_add (s_pkg s1))) with
                     | Some t => match cp_addr (s_pkg t) with VPyNone => Internal E_ATTR | av => Ok av end
                     | None => Internal E_INDEX
                     end
              end);
    do a' <- as_translation_error (fit_value tv 4 true);
    Ok (with_add s1 a')
  else if cp_needs p then
    do target <- (match operand_left (s_operand s) with
                  | Some (LVal (VExpr l op r _ true)) =>
                      do v <- calc_offset all l op r;
                      Ok (if v_negative v then (- Z.of_N (v_int v))%Z else Z.of_N (v_int v))
                  | _ => do a <- addr_of all (v_int (cp_add (s_pkg s1))); Ok (Z.of_N a)
                  end);
    do start <- addr_of all this;
    let jump := (((target - Z.of_N start - Z.of_N (cp_size p)) + 32768) mod 65536 - 32768)%Z in
    do n <- as_translation_error (num_of_Z jump (Some (s_hint s)) MNone);
    Ok (with_add s1 (VNum n))
  else Ok s1.

Lemma fix_stmt_split all k s : is_relative_op (s_operand s) = false ->
  fix_stmt all k s = match operand_value (s_operand s) with
                     | VPyNone => Internal E_ATTR
                     | _ => do s1 <- fix_head all s; fix_rest all k s s1
                     end.
Proof.
  intros Hrel. unfold fix_stmt, fix_head, fix_rest, fix_digits, fix_signed. rewrite Hrel.
  destruct (operand_value (s_operand s)); reflexivity.
Qed.

Lemma with_add_cp_add s a : cp_add (s_pkg (with_add s a)) = a. Proof. reflexivity. Qed.
Lemma with_add_twice s a b : with_add (with_add s a) b = with_add s b. Proof. reflexivity. Qed.
Lemma with_add_self s : with_add s (cp_add (s_pkg s)) = s.
Proof. destruct s as [? ? ? ? [] ? ?]. reflexivity. Qed.

Section FixTwo.
Variable D : Z.
Variables all all' : list stmt.
Hypothesis Hall0 : Forall2 (A D) all all'.
Let Hall : Forall2 (Sh D) all all' := A_Sh D all all' Hall0.

(* the operand value *)
Lemma fix_head_A s s1 s1' : reloc_ok s -> fix_head all s = Ok s1 -> fix_head all' s = Ok s1' ->
  exists a a', s1 = with_add s a /\ s1' = with_add s a' /\
    value_number a' = (value_number a + coef_value (operand_value (s_operand s)) * D)%Z /\
    ((coef_value (operand_value (s_operand s)) * D = 0)%Z -> a' = a).
Proof.
  intros (Hov & _) H H'. unfold fix_head in H, H'.
  assert (Hid : forall X, X = Ok s1 -> X = Ok s -> s1 = s) by (intros; congruence).
  destruct (operand_value (s_operand s)) as [ | vn | nm vm | idx | l op r m addr | xl xr xm | str | hx | ] eqn:Eov; cbn [coef_value].
  all: try (assert (E1 : s1 = s) by congruence; assert (E2 : s1' = s) by congruence; subst s1 s1';
            exists (cp_add (s_pkg s)), (cp_add (s_pkg s)); rewrite with_add_self; repeat split; auto; lia).
  - (* a label *)
    destruct (nth_stmt all idx) as [t|] eqn:En; [|discriminate].
    destruct (nth_stmt_A D all all' idx t Hall En) as (t' & En' & Hsh). rewrite En' in H'.
    destruct (shifted_number D _ _ Hsh) as (Hnum & Hnn & Hnn').
    assert (Hf : exists a, as_translation_error (fit_value (cp_addr (s_pkg t)) (fix_digits s) true) = Ok a /\ s1 = with_add s a).
    { destruct (cp_addr (s_pkg t)); try congruence; apply bind_ok in H as [a [Ha H]]; inversion H; subst; eauto. }
    assert (Hf' : exists a, as_translation_error (fit_value (cp_addr (s_pkg t')) (fix_digits s) true) = Ok a /\ s1' = with_add s a).
    { destruct (cp_addr (s_pkg t')); try congruence; apply bind_ok in H' as [a [Ha H']]; inversion H'; subst; eauto. }
    destruct Hf as (a & Ha & ->). destruct Hf' as (a' & Ha' & ->). apply as_te_ok in Ha. apply as_te_ok in Ha'.
    exists a, a'. split; [reflexivity|]. split; [reflexivity|].
    rewrite (fit_value_val _ _ _ _ Ha), (fit_value_val _ _ _ _ Ha'). split; [lia|].
    intros Hz. assert (E : value_number (cp_addr (s_pkg t')) = value_number (cp_addr (s_pkg t))) by lia.
    rewrite (fit_value_same _ _ _ _ E) in Ha'. congruence.
  - (* label arithmetic *)
    destruct addr.
    + specialize (Hov _ _ _ _ eq_refl).
      apply bind_ok in H as [v [Hv H]]. apply bind_ok in H as [a [Ha H]]. inversion H; subst s1.
      apply bind_ok in H' as [v' [Hv' H']]. apply bind_ok in H' as [a' [Ha' H']]. inversion H'; subst s1'.
      apply as_te_ok in Ha. apply as_te_ok in Ha'.
      pose proof (calc_offset_A D all all' Hall _ _ _ _ _ Hov Hv Hv') as Hc.
      exists a, a'. split; [reflexivity|]. split; [reflexivity|].
      rewrite (fit_value_val _ _ _ _ Ha), (fit_value_val _ _ _ _ Ha'). split; [exact Hc|].
      intros Hz. assert (E : value_number v' = value_number v) by lia.
      rewrite (fit_value_same _ _ _ _ E) in Ha'. congruence.
    + assert (E1 : s1 = s) by congruence. assert (E2 : s1' = s) by congruence. subst s1 s1'.
      exists (cp_add (s_pkg s)), (cp_add (s_pkg s)). rewrite with_add_self. repeat split; auto; lia.
Qed.

(* the left part (label as an index offset, PC-relative target) when the operand value holds no label: s1 = s *)
Lemma fix_rest_A k s t t2 : reloc_ok s -> fix_rest all k s s = Ok t -> fix_rest all' k s s = Ok t2 ->
  let c := if addr_offset (s_pkg s) then
             match operand_left (s_operand s) with Some (LVal (VExpr l op r _ true)) => coef_expr l op r | _ => 1%Z end
           else 0%Z in
  same_but_add t t2 /\ value_number (cp_add (s_pkg t2)) = (value_number (cp_add (s_pkg t)) + c * D)%Z /\
  ((c * D = 0)%Z -> t2 = t).
Proof.
  intros (_ & Hleft) H H'. unfold fix_rest in H, H'. cbv zeta.
  destruct (addr_offset (s_pkg s)) eqn:Eao.
  - (* a label as the constant offset of an index register *)
    apply bind_ok in H as [tv [Htv H]]. apply bind_ok in H as [a [Ha H]]. inversion H; subst t.
    apply bind_ok in H' as [tv' [Htv' H']]. apply bind_ok in H' as [a' [Ha' H']]. inversion H'; subst t2.
    apply as_te_ok in Ha. apply as_te_ok in Ha'.
    assert (Hc : value_number tv' = (value_number tv +
               match operand_left (s_operand s) with Some (LVal (VExpr l op r _ true)) => coef_expr l op r | _ => 1%Z end * D)%Z).
    { destruct (operand_left (s_operand s)) as [[tx|vx]|] eqn:El.
      1,3: destruct (nth_stmt all _) as [t0|] eqn:En; [|discriminate];
           destruct (nth_stmt_A D all all' _ t0 Hall En) as (t0' & En' & Hsh); rewrite En' in Htv';
           destruct (shifted_number D _ _ Hsh) as (Hnum & Hnn & Hnn');
           assert (E1 : tv = cp_addr (s_pkg t0)) by (destruct (cp_addr (s_pkg t0)); congruence);
           assert (E2 : tv' = cp_addr (s_pkg t0')) by (destruct (cp_addr (s_pkg t0')); congruence);
           subst; lia.
      destruct vx; try (destruct (nth_stmt all _) as [t0|] eqn:En; [|discriminate];
           destruct (nth_stmt_A D all all' _ t0 Hall En) as (t0' & En' & Hsh); rewrite En' in Htv';
           destruct (shifted_number D _ _ Hsh) as (Hnum & Hnn & Hnn');
           assert (E1 : tv = cp_addr (s_pkg t0)) by (destruct (cp_addr (s_pkg t0)); congruence);
           assert (E2 : tv' = cp_addr (s_pkg t0')) by (destruct (cp_addr (s_pkg t0')); congruence);
           subst; lia).
      destruct addr.
      - destruct (Hleft _ _ _ _ eq_refl) as [Hop _]. exact (calc_offset_A D all all' Hall _ _ _ _ _ Hop Htv Htv').
      - destruct (nth_stmt all _) as [t0|] eqn:En; [|discriminate].
        destruct (nth_stmt_A D all all' _ t0 Hall En) as (t0' & En' & Hsh). rewrite En' in Htv'.
        destruct (shifted_number D _ _ Hsh) as (Hnum & Hnn & Hnn').
        assert (E1 : tv = cp_addr (s_pkg t0)) by (destruct (cp_addr (s_pkg t0)); congruence).
        assert (E2 : tv' = cp_addr (s_pkg t0')) by (destruct (cp_addr (s_pkg t0')); congruence).
        subst; lia. }
    split; [unfold same_but_add; now rewrite with_add_cp_add, with_add_twice|]. rewrite !with_add_cp_add.
    rewrite (fit_value_val _ _ _ _ Ha), (fit_value_val _ _ _ _ Ha'). split; [exact Hc|].
    intros Hz. assert (E : value_number tv' = value_number tv) by lia.
    rewrite (fit_value_same _ _ _ _ E) in Ha'. congruence.
  - destruct (cp_needs (s_pkg s)) eqn:Ene.
    + (* PC-relative: target and start both move by D *)
      apply bind_ok in H as [tg [Htg H]]. apply bind_ok in H as [st [Hst H]]. apply bind_ok in H as [n [Hn H]]. inversion H; subst t.
      apply bind_ok in H' as [tg' [Htg' H']]. apply bind_ok in H' as [st' [Hst' H']]. apply bind_ok in H' as [n' [Hn' H']]. inversion H'; subst t2.
      destruct (addr_of_A D all all' Hall _ _ Hst) as (st2 & Hst2 & Est). rewrite Hst2 in Hst'. inversion Hst'; subst st2.
      assert (Etg : tg' = (tg + D)%Z).
      { destruct (operand_left (s_operand s)) as [[tx|vx]|] eqn:El.
        1,3: apply bind_ok in Htg as [a [Ha Htg]]; inversion Htg; subst tg;
             destruct (addr_of_A D all all' Hall _ _ Ha) as (a2 & Ha2 & Ea); rewrite Ha2 in Htg'; cbn [bind] in Htg'; inversion Htg'; subst; lia.
        destruct vx; try (apply bind_ok in Htg as [a [Ha Htg]]; inversion Htg; subst tg;
             destruct (addr_of_A D all all' Hall _ _ Ha) as (a2 & Ha2 & Ea); rewrite Ha2 in Htg'; cbn [bind] in Htg'; inversion Htg'; subst; lia).
        destruct addr.
        - destruct (Hleft _ _ _ _ eq_refl) as [Hop Hone]. specialize (Hone eq_refl).
          apply bind_ok in Htg as [v [Hv Htg]]. inversion Htg; subst tg.
          apply bind_ok in Htg' as [v' [Hv' Htg']]. inversion Htg'; subst tg'.
          pose proof (calc_offset_A D all all' Hall _ _ _ _ _ Hop Hv Hv') as Hc. rewrite Hone in Hc. unfold value_number in Hc. lia.
        - apply bind_ok in Htg as [a [Ha Htg]]; inversion Htg; subst tg.
          destruct (addr_of_A D all all' Hall _ _ Ha) as (a2 & Ha2 & Ea); rewrite Ha2 in Htg'; cbn [bind] in Htg'; inversion Htg'; subst; lia. }
      assert (Ej : (tg' - Z.of_N st' - Z.of_N (cp_size (s_pkg s)))%Z = (tg - Z.of_N st - Z.of_N (cp_size (s_pkg s)))%Z) by lia.
      rewrite Ej in Hn'. rewrite Hn in Hn'. inversion Hn'; subst n'.
      split; [unfold same_but_add; now rewrite with_add_cp_add, with_add_twice|]. split; [lia | reflexivity].
    + inversion H; inversion H'; subst. split; [unfold same_but_add; now rewrite with_add_self|]. split; [lia | reflexivity].
Qed.
End FixTwo.

Lemma fix_lists D all all' k s t t2 : Forall2 (A D) all all' -> reloc_ok s -> needs_ok s ->
  fix_stmt all k s = Ok t -> fix_stmt all' k s = Ok t2 ->
  same_but_add t t2 /\ value_number (cp_add (s_pkg t2)) = (value_number (cp_add (s_pkg t)) + coef_stmt s * D)%Z /\
  ((coef_stmt s * D = 0)%Z -> t2 = t).
Proof.
  intros Hall Hok Hneeds H H2. unfold coef_stmt.
  destruct (is_relative_op (s_operand s)) eqn:Erel.
  - (* branches: sizes only *)
    unfold fix_stmt in H, H2. rewrite Erel in H, H2.
    rewrite !(sum_sizes_A D all all' Hall) in H2. rewrite H in H2. inversion H2; subst t2.
    split; [unfold same_but_add; now rewrite with_add_self|]. split; [lia | reflexivity].
  - rewrite (fix_stmt_split _ _ _ Erel) in H. rewrite (fix_stmt_split _ _ _ Erel) in H2.
    assert (Hsplit : exists s1 s1', fix_head all s = Ok s1 /\ fix_rest all k s s1 = Ok t /\
                                    fix_head all' s = Ok s1' /\ fix_rest all' k s s1' = Ok t2).
    { destruct (operand_value (s_operand s)); try discriminate;
        apply bind_ok in H as [s1 [Hh Hr]]; apply bind_ok in H2 as [s1' [Hh' Hr']]; exists s1, s1'; auto. }
    destruct Hsplit as (s1 & s1' & Hh & Hr & Hh' & Hr').
    destruct (fix_head_A D all all' Hall s s1 s1' Hok Hh Hh') as (a & a' & -> & -> & Hval & Hsame).
    assert (Hlab : (exists idx, operand_value (s_operand s) = VAddr idx) \/
                   (exists l op r m, operand_value (s_operand s) = VExpr l op r m true) \/
                   (coef_value (operand_value (s_operand s)) = 0%Z /\ fix_head all s = Ok s /\ fix_head all' s = Ok s)).
    { unfold fix_head. destruct (operand_value (s_operand s)) as [ | vn | nm vm | idx | l op r m [] | xl xr xm | str | hx | ]; cbn [coef_value]; eauto 8. }
    destruct Hlab as [(idx & Eov) | [(l & op & r & m & Eov) | (Hc0 & Hs & Hs')]].
    + (* a label operand: nothing is resolved through a left part *)
      assert (Hn : addr_offset (s_pkg s) = false /\ cp_needs (s_pkg s) = false).
      { unfold needs_ok in Hneeds. rewrite Eov in Hneeds. destruct (addr_offset (s_pkg s)), (cp_needs (s_pkg s)); auto; exfalso; apply Hneeds; auto. }
      destruct Hn as [Hao Hne]. unfold fix_rest in Hr, Hr'. rewrite Hao, Hne in Hr, Hr'. inversion Hr; inversion Hr'; subst t t2.
      rewrite Hao, Hne, !with_add_cp_add. split; [unfold same_but_add; now rewrite with_add_cp_add, with_add_twice|].
      split; [exact Hval|]. intros Hz. now rewrite (Hsame Hz).
    + assert (Hn : addr_offset (s_pkg s) = false /\ cp_needs (s_pkg s) = false).
      { unfold needs_ok in Hneeds. rewrite Eov in Hneeds. destruct (addr_offset (s_pkg s)), (cp_needs (s_pkg s)); auto; exfalso; apply Hneeds; auto. }
      destruct Hn as [Hao Hne]. unfold fix_rest in Hr, Hr'. rewrite Hao, Hne in Hr, Hr'. inversion Hr; inversion Hr'; subst t t2.
      rewrite Hao, Hne, !with_add_cp_add. split; [unfold same_but_add; now rewrite with_add_cp_add, with_add_twice|].
      split; [exact Hval|]. intros Hz. now rewrite (Hsame Hz).
    + (* no label in the operand value *)
      assert (E1 : with_add s a = s) by congruence. assert (E2 : with_add s a' = s) by congruence. rewrite E1 in Hr. rewrite E2 in Hr'.
      pose proof (fix_rest_A D all all' Hall k s t t2 Hok Hr Hr') as Hrest. cbv zeta in Hrest.
      revert Hrest. destruct (addr_offset (s_pkg s)); [intros Hrest; exact Hrest|]. destruct (cp_needs (s_pkg s)); intros Hrest; [exact Hrest|]. rewrite Hc0. exact Hrest.
Qed.

(* ====================================================================================================== *)
(* 5. all statements: the relation between the two final statement lists                                   *)
(* ====================================================================================================== *)
Definition R (D : Z) (t t' : stmt) : Prop :=
  s_label t' = s_label t /\ s_instr t' = s_instr t /\ s_fixed t' = s_fixed t /\ s_hint t' = s_hint t /\
  cp_op (s_pkg t') = cp_op (s_pkg t) /\ cp_post (s_pkg t') = cp_post (s_pkg t) /\ cp_size (s_pkg t') = cp_size (s_pkg t) /\
  cp_needs (s_pkg t') = cp_needs (s_pkg t) /\ cp_choices (s_pkg t') = cp_choices (s_pkg t) /\ cp_max (s_pkg t') = cp_max (s_pkg t) /\
  shifted D (cp_addr (s_pkg t)) (cp_addr (s_pkg t')) /\
  (Tables.is_origin (s_instr t) = false -> s_operand t' = s_operand t /\ s_opstr t' = s_opstr t) /\
  value_number (cp_add (s_pkg t')) = (value_number (cp_add (s_pkg t)) + coef_stmt t * D)%Z /\
  ((coef_stmt t * D = 0)%Z -> cp_add (s_pkg t') = cp_add (s_pkg t)).

(* an ORG statement as translate leaves it *)
Definition org_ok (s : stmt) : Prop :=
  Tables.is_origin (s_instr s) = true -> (exists str n, s_operand s = OPseudo str (VNum n)) /\ cp_needs (s_pkg s) = false.

Lemma A_readdr D s s' : A D s s' -> Tables.is_origin (s_instr s) = false -> s' = readdr (cp_addr (s_pkg s')) s.
Proof.
  intros (E1 & E2 & E3 & E4 & (P1 & P2 & P3 & P4 & P5 & P6 & P7) & _ & Hno) Ho. destruct (Hno Ho) as [E5 E6].
  destruct s as [l i o str p f h], s' as [l' i' o' str' p' f' h']. destruct p, p'. cbn in *. subst. reflexivity.
Qed.

Lemma coef_stmt_rel_fix s t : rel_fix s t -> coef_stmt t = coef_stmt s.
Proof.
  intros (_ & _ & Eo & _ & _ & _ & _ & _ & _ & _ & En & Ec & _). unfold coef_stmt, addr_offset. now rewrite Eo, En, Ec.
Qed.

Lemma fix_org all k s : org_ok s -> Tables.is_origin (s_instr s) = true -> fix_stmt all k s = Ok s.
Proof.
  intros Ho Hor. destruct (Ho Hor) as [(str & n & Eop) Hne].
  rewrite fix_stmt_split by (rewrite Eop; reflexivity). rewrite Eop. cbn [operand_value].
  unfold fix_head. rewrite Eop. cbn [operand_value bind]. unfold fix_rest, addr_offset. rewrite Hne. reflexivity.
Qed.

Lemma fix_pair D all all' k s s' t t' : Forall2 (A D) all all' -> A D s s' ->
  reloc_ok s -> needs_ok s -> org_ok s -> org_ok s' ->
  fix_stmt all k s = Ok t -> fix_stmt all' k s' = Ok t' -> R D t t'.
Proof.
  intros Hall HA Hrel Hneeds Ho Ho' H H'.
  pose proof HA as (E1 & E2 & E3 & E4 & (P1 & P2 & P3 & P4 & P5 & P6 & P7) & Hsh & Hno).
  destruct (Tables.is_origin (s_instr s)) eqn:Eor.
  - (* the ORG statement: left as it is *)
    rewrite (fix_org all k s Ho Eor) in H. inversion H; subst t.
    assert (Eor' : Tables.is_origin (s_instr s') = true) by now rewrite E2.
    rewrite (fix_org all' k s' Ho' Eor') in H'. inversion H'; subst t'.
    assert (Hc : coef_stmt s = 0%Z).
    { destruct (Ho Eor) as [(str & n & Eop) Hne]. unfold coef_stmt, addr_offset. rewrite Eop, Hne. reflexivity. }
    unfold R. rewrite Hc, Eor. repeat split; auto; try discriminate; rewrite P3; lia.
  - rewrite (A_readdr D s s' HA Eor) in H'. rewrite fix_readdr in H'. apply bind_ok in H' as [t2 [H2 H']]. inversion H'; subst t'.
    destruct (fix_lists D all all' k s t t2 Hall Hrel Hneeds H H2) as (Hsame & Hval & Hzero).
    pose proof (fix_stmt_rel _ _ _ _ H) as (F1 & F2 & F3 & F4 & F5 & F6 & F7 & F8 & F9 & F10 & F11 & F12 & F13).
    pose proof (coef_stmt_rel_fix s t (fix_stmt_rel _ _ _ _ H)) as Ec. rewrite <- Ec in Hval, Hzero.
    unfold same_but_add in Hsame. rewrite Hsame in Hval |- *. unfold R, readdr, with_add, set_pkg in *. cbn in *.
    rewrite F2, Eor, F8. repeat split; auto.
    intros Hz. now rewrite (Hzero Hz).
Qed.

Lemma fix_all_R D all all' : Forall2 (A D) all all' -> forall ss ss' k r r', Forall2 (A D) ss ss' ->
  Forall (fun s => reloc_ok s /\ needs_ok s /\ org_ok s) ss -> Forall org_ok ss' ->
  fix_all all ss k = Ok r -> fix_all all' ss' k = Ok r' -> Forall2 (R D) r r'.
Proof.
  intros Hall ss ss' k r r' H. revert k r r'. induction H as [|s s' ss ss' Hs _ IH]; intros k r r' Hok Hok' Hf Hf'; cbn [fix_all] in Hf, Hf'.
  - inversion Hf; inversion Hf'; subst. constructor.
  - inversion Hok as [|? ? (Hr & Hn & Ho) Hoks]; subst. inversion Hok' as [|? ? Ho' Hoks']; subst.
    apply bind_ok in Hf as [t [Ht Hf]]. apply bind_ok in Hf as [rest [Hrest Hf]]. inversion Hf; subst r.
    apply bind_ok in Hf' as [t' [Ht' Hf']]. apply bind_ok in Hf' as [rest' [Hrest' Hf']]. inversion Hf'; subst r'.
    constructor; [eapply fix_pair; eauto | eapply IH; eauto].
Qed.

(* ====================================================================================================== *)
(* 5b. the symbol table: a label moves by D, an EQU constant does not, an EQU of label arithmetic moves by   *)
(*     its coefficient                                                                                      *)
(* ====================================================================================================== *)
Lemma R_Sh D l l' : Forall2 (R D) l l' -> Forall2 (Sh D) l l'.
Proof. induction 1 as [|a b l l' Hab _ IH]; constructor; [|exact IH]. destruct Hab as (_&_&_&_&_&_&_&_&_&_& Hs & _). exact Hs. Qed.

Definition sym_ok (tb : symtab) : Prop :=
  Forall (fun kv => match snd kv with VExpr l op r _ true => ops_ok l op r | _ => True end) tb.

Definition sym_rel (D : Z) (kv0 kv kv' : text * value) : Prop :=
  fst kv = fst kv0 /\ fst kv' = fst kv0 /\
  value_number (snd kv') = (value_number (snd kv) + coef_value (snd kv0) * D)%Z /\
  (coef_value (snd kv0) = 0%Z -> snd kv' = snd kv).

Fixpoint rel3 {X} (P : X -> X -> X -> Prop) (a b c : list X) : Prop :=
  match a, b, c with
  | [], [], [] => True
  | x :: a', y :: b', z :: c' => P x y z /\ rel3 P a' b' c'
  | _, _, _ => False
  end.

Lemma backpatch_R D ss ss' : Forall2 (Sh D) ss ss' -> forall tb t t', sym_ok tb ->
  backpatch ss tb = Ok t -> backpatch ss' tb = Ok t' -> rel3 (sym_rel D) tb t t'.
Proof.
  intros Hsh. unfold backpatch. induction tb as [|kv0 tb IH]; intros t t' Hok H H'; cbn [map_res] in H, H'.
  - inversion H; inversion H'; subst. exact I.
  - inversion Hok as [|? ? Hk Hoks]; subst.
    apply bind_ok in H as [kv [Hkv H]]. apply bind_ok in H as [rest [Hrest H]]. inversion H; subst t.
    apply bind_ok in H' as [kv' [Hkv' H']]. apply bind_ok in H' as [rest' [Hrest' H']]. inversion H'; subst t'.
    cbn [rel3]. split; [|eapply IH; eauto]. unfold sym_rel.
    destruct (snd kv0) as [ | vn | nm vm | idx | l op r m [] | xl xr xm | str | hx | ] eqn:Ev; cbn [coef_value].
    all: try (inversion Hkv; inversion Hkv'; subst; cbn [fst snd]; repeat split; auto; lia).
    + (* a label *)
      destruct (nth_stmt ss idx) as [t0|] eqn:En; [|discriminate]. destruct (nth_stmt_A D ss ss' idx t0 Hsh En) as (t0' & En' & Hs).
      rewrite En' in Hkv'. inversion Hkv; inversion Hkv'; subst. cbn [fst snd].
      destruct (shifted_number D _ _ Hs) as (Hnum & _). repeat split; auto; try lia.
    + (* label arithmetic *)
      apply bind_ok in Hkv as [v [Hv Hkv]]. apply bind_ok in Hkv as [a [Ha Hkv]]. inversion Hkv; subst kv.
      apply bind_ok in Hkv' as [v' [Hv' Hkv']]. apply bind_ok in Hkv' as [a' [Ha' Hkv']]. inversion Hkv'; subst kv'.
      apply as_te_ok in Ha. apply as_te_ok in Ha'. cbn [fst snd].
      pose proof (calc_offset_A D ss ss' Hsh _ _ _ _ _ Hk Hv Hv') as Hc.
      rewrite (fit_value_val _ _ _ _ Ha), (fit_value_val _ _ _ _ Ha'). repeat split; auto.
      intros Hz. assert (E : value_number v' = value_number v) by (rewrite Hz in Hc; lia).
      rewrite (fit_value_same _ _ _ _ E) in Ha'. congruence.
Qed.

(* ====================================================================================================== *)
(* 6. the two programs                                                                                     *)
(* ====================================================================================================== *)
Lemma expand_list_noinc rec fm chain : forall l, Forall (fun s => Tables.is_include (s_instr s) = false) l ->
  expand_list rec fm chain l = Ok l.
Proof.
  induction l as [|s l IH]; intros H; cbn [expand_list]; [reflexivity|]. inversion H as [|? ? Hs Hl]; subst.
  rewrite Hs. cbn [andb]. rewrite (IH Hl). reflexivity.
Qed.
Lemma expand_noinc fuel fm chain l : Forall (fun s => Tables.is_include (s_instr s) = false) l -> expand fuel fm chain l = Ok l.
Proof. destruct fuel; cbn [expand]; apply expand_list_noinc. Qed.

(* ====================================================================================================== *)
(* 8. needs_ok holds of every translated statement: only an indexed operand is resolved through its left   *)
(*    part, and then its value holds no label                                                              *)
(* ====================================================================================================== *)
Definition no_label (v : value) : Prop := match v with VAddr _ | VExpr _ _ _ _ true => False | _ => True end.

Lemma translate_operand_needs o i p : translate_operand o i = Ok p -> cp_needs p = true -> no_label (operand_value o).
Proof.
  intros H Hn. destruct o; cbn [translate_operand operand_value] in *.
  - (* pseudo *) unfold translate_pseudo, data_pkg, cp_empty in H.
    repeat match type of H with
    | (if ?b then _ else _) = Ok _ => destruct b
    | (match ?v with VPyNone => _ | _ => _ end) = Ok _ => destruct v
    | bind _ _ = Ok _ => let x := fresh "x" in let Hx := fresh "Hx" in apply bind_ok in H as [x [Hx H]]
    end; try discriminate; inversion H; subst; cbn in Hn; discriminate.
  - exact I.
  - destruct v; try discriminate; destruct (Tables.rel i); try discriminate;
      match type of H with (if ?b then _ else _) = Ok _ => destruct b; try discriminate end;
      unfold simple_pkg in H; apply bind_ok in H as [x [_ H]]; inversion H; subst; cbn in Hn; discriminate.
  - exact I.
  - (* [..] *)
    unfold opt_op in H. destruct (Tables.ind i); [|discriminate].
    destruct v; try exact I; try discriminate.
    + unfold mk_idx_pkg in H. apply bind_ok in H as [x [_ H]]. apply bind_ok in H as [y [_ H]]. inversion H; subst. cbn in Hn. discriminate.
    + destruct addr; [|exact I]. unfold mk_idx_pkg in H. apply bind_ok in H as [x [_ H]]. apply bind_ok in H as [y [_ H]]. inversion H; subst. cbn in Hn. discriminate.
  - exact I.
  - destruct v; try discriminate; unfold opt_op in H; destruct (Tables.imm i); try discriminate;
      apply bind_ok in H as [a [_ H]]; unfold simple_pkg in H; apply bind_ok in H as [x [_ H]]; inversion H; subst; cbn in Hn; discriminate.
  - inversion H; subst. cbn in Hn. discriminate.
  - destruct v; try discriminate; unfold opt_op in H; destruct (Tables.dir i); try discriminate;
      apply bind_ok in H as [a [_ H]]; unfold simple_pkg in H; apply bind_ok in H as [x [_ H]]; inversion H; subst; cbn in Hn; discriminate.
  - destruct v; try discriminate; unfold opt_op in H; destruct (Tables.ext i); try discriminate;
      apply bind_ok in H as [a [_ H]]; unfold simple_pkg in H; apply bind_ok in H as [x [_ H]]; inversion H; subst; cbn in Hn; discriminate.
Qed.

Definition NL (s : stmt) : Prop := cp_needs (s_pkg s) = true -> no_label (operand_value (s_operand s)).
Lemma needs_ok_of s : NL s -> needs_ok s.
Proof.
  unfold NL, needs_ok, no_label, addr_offset. intros H [Ha | Hn].
  - apply andb_true_iff in Ha as [Hn _]. specialize (H Hn). destruct (operand_value (s_operand s)) as [ | | | | ? ? ? ? [] | | | | ]; auto.
  - specialize (H Hn). destruct (operand_value (s_operand s)) as [ | | | | ? ? ? ? [] | | | | ]; auto.
Qed.
Lemma translate_stmt_N s s' : translate_stmt s = Ok s' -> NL s'.
Proof.
  unfold translate_stmt. intros H. apply bind_ok in H as [p [Hp H]]. inversion H; subst. unfold NL. cbn [s_pkg s_operand].
  apply as_te_ok in Hp. exact (translate_operand_needs _ _ _ Hp).
Qed.
Lemma assign_pres (P : stmt -> Prop) : (forall s s', same_but_addr s s' -> P s -> P s') ->
  forall ss a em ss', assign_addresses ss a em = Ok ss' -> Forall P ss -> Forall P ss'.
Proof.
  intros HP. induction ss as [|s r IH]; intros a em ss' H Hp.
  - cbn in H. inversion H; subst. constructor.
  - inversion Hp as [|? ? Hs Hr]; subst. destruct (assign_step _ _ _ _ _ H) as (x & rest & -> & Hsame & _ & _ & _ & Hrest).
    constructor; [eapply HP; eauto | eapply IH; eauto].
Qed.
Lemma N_same_but_addr s s' : same_but_addr s s' -> NL s -> NL s'.
Proof. intros (_ & _ & Eo & _ & _ & _ & _ & _ & _ & _ & En & _) H. unfold NL in *. now rewrite Eo, En. Qed.
Lemma reloc_ok_rel_fix s t : rel_fix s t -> reloc_ok t -> reloc_ok s.
Proof.
  intros (_ & _ & Eo & _ & _ & _ & _ & _ & _ & _ & En & Ec & _) Hr. unfold reloc_ok, addr_offset in *. rewrite Eo, En, Ec in *. auto.
Qed.

Lemma ok_rel_fix s t : rel_fix s t -> reloc_ok t /\ needs_ok t -> reloc_ok s /\ needs_ok s.
Proof.
  intros (_ & _ & Eo & _ & _ & _ & _ & _ & _ & _ & En & Ec & _) [Hr Hn].
  unfold reloc_ok, needs_ok, addr_offset in *. rewrite Eo, En, Ec in *. auto.
Qed.

Lemma assign_instr (P : irow -> Prop) : forall ss a em ss', assign_addresses ss a em = Ok ss' ->
  Forall (fun s => P (s_instr s)) ss -> Forall (fun s => P (s_instr s)) ss'.
Proof.
  induction ss as [|s r IH]; intros a em ss' H Hp.
  - cbn in H. inversion H; subst. constructor.
  - inversion Hp as [|? ? Hs Hr]; subst. destruct (assign_step _ _ _ _ _ H) as (x & rest & -> & Hsame & _ & _ & _ & Hrest).
    constructor; [destruct Hsame as (_ & Ei & _); now rewrite Ei | eapply IH; eauto].
Qed.

Section Programs.
Variables (fm : filemap) (lb : text) (i : irow) (str str' : text) (n n' : num) (rest : list stmt).
Hypothesis Hi : In i Tables.instructions.
Hypothesis Hor : Tables.is_origin i = true.
Hypothesis Hneg : n_neg n = false.
Hypothesis Hneg' : n_neg n' = false.
Hypothesis Hrest : Forall (fun s => In (s_instr s) Tables.instructions /\ Tables.is_origin (s_instr s) = false /\
                                    Tables.is_include (s_instr s) = false) rest.

Definition org0 (st : text) (m : num) : stmt := mk_stmt lb i (OPseudo st (VNum m)) st.
Definition org2 (st : text) (m : num) : stmt :=
  {| s_label := lb; s_instr := i; s_operand := OPseudo st (VNum m); s_opstr := st;
     s_pkg := {| cp_op := VNone; cp_addr := VNum m; cp_post := VNone; cp_add := VNone; cp_size := 0; cp_needs := false;
                 cp_choices := []; cp_max := 0 |};
     s_fixed := true; s_hint := 2 |}.

Lemma org_stage12 tb st m : n_neg m = false -> resolve_stmt tb (org0 st m) = Ok (org0 st m) /\ translate_stmt (org0 st m) = Ok (org2 st m).
Proof.
  intros Hm. destruct (org_facts i Hi Hor) as (_ & Hmb & Hmw & _ & _ & _ & _ & Hmn). split.
  - unfold resolve_stmt, org0, mk_stmt. cbn [s_operand s_instr resolve_operand]. rewrite Hmb, Hmw, Hmn.
    change (text_eqb ORG_t RMB_t) with false. change (text_eqb ORG_t ORG_t) with true.
    cbn [orb andb v_is_symbol v_is_expr bind v_is_numeric negb v_negative]. rewrite Hm. reflexivity.
  - unfold translate_stmt, org0, mk_stmt. cbn [s_operand s_instr translate_operand]. unfold translate_pseudo. rewrite Hmn.
    change (text_eqb ORG_t FCB_t) with false. change (text_eqb ORG_t FDB_t) with false.
    change (text_eqb ORG_t RMB_t) with false. change (text_eqb ORG_t ORG_t) with true. reflexivity.
Qed.

Lemma symbols_same st m st' m' :
  save_symbols (org0 st' m' :: rest) 0 [] = save_symbols (org0 st m :: rest) 0 [] /\
  forall tb, resolve_defined (org0 st' m' :: rest) tb = resolve_defined (org0 st m :: rest) tb.
Proof.
  destruct (org_facts i Hi Hor) as (_ & _ & _ & _ & Hpd & _). unfold org0, mk_stmt. split.
  - cbn [save_symbols s_label s_instr]. destruct lb; [reflexivity|]. cbn [lookup]. rewrite Hpd. reflexivity.
  - intros tb. cbn [resolve_defined s_label s_instr]. destruct lb; [reflexivity|]. rewrite Hpd. reflexivity.
Qed.

Lemma O_org st m st' m' : O (org2 st m) (org2 st' m').
Proof. right. unfold org2, pkg_but_addr. cbn. repeat split; auto. Qed.

Theorem relocation ss tb ss' tb' :
  translate_program fm (org0 str n :: rest) = Ok (ss, tb) -> translate_program fm (org0 str' n' :: rest) = Ok (ss', tb') ->
  Forall reloc_ok ss ->
  Forall2 (R (Z.of_N (n_int n') - Z.of_N (n_int n))) ss ss' /\
  exists tb0, backpatch ss tb0 = Ok tb /\ backpatch ss' tb0 = Ok tb' /\
              (sym_ok tb0 -> rel3 (sym_rel (Z.of_N (n_int n') - Z.of_N (n_int n))) tb0 tb tb').
Proof.
  intros Ht Ht' Hok. unfold translate_program in Ht, Ht'.
  destruct (org_facts i Hi Hor) as (_ & _ & _ & Hinc & _).
  assert (Hni : forall st m, Forall (fun s => Tables.is_include (s_instr s) = false) (org0 st m :: rest)).
  { intros st m. constructor; [exact Hinc|]. eapply Forall_impl; [|exact Hrest]. intros a (_ & _ & Ha). exact Ha. }
  rewrite (expand_noinc _ _ _ _ (Hni str n)) in Ht. rewrite (expand_noinc _ _ _ _ (Hni str' n')) in Ht'. cbn [bind] in Ht, Ht'.
  destruct (symbols_same str n str' n') as [Es Er]. rewrite Es in Ht'.
  apply bind_ok in Ht as [tb00 [H00 Ht]]. rewrite H00 in Ht'. cbn [bind] in Ht'. rewrite Er in Ht'.
  apply bind_ok in Ht as [tb0 [Htb0 Ht]]. rewrite Htb0 in Ht'. cbn [bind] in Ht'.
  apply bind_ok in Ht as [ss1 [H1 Ht]]. apply bind_ok in Ht as [ss2 [H2 Ht]]. apply bind_ok in Ht as [ss3 [H3 Ht]].
  apply bind_ok in Ht as [ss4 [H4 Ht]]. apply bind_ok in Ht as [ss5 [H5 Ht]]. apply bind_ok in Ht as [tbf [Hbp Ht]]. inversion Ht; subst ss5 tbf. clear Ht.
  apply bind_ok in Ht' as [ss1' [H1' Ht']]. apply bind_ok in Ht' as [ss2' [H2' Ht']]. apply bind_ok in Ht' as [ss3' [H3' Ht']].
  apply bind_ok in Ht' as [ss4' [H4' Ht']]. apply bind_ok in Ht' as [ss5' [H5' Ht']]. apply bind_ok in Ht' as [tbf' [Hbp' Ht']]. inversion Ht'; subst ss5' tbf'. clear Ht'.
  (* resolve and translate: the heads are the two ORG statements, the tails are the same *)
  cbn [map_res] in H1, H1'. rewrite (proj1 (org_stage12 tb0 str n Hneg)) in H1. rewrite (proj1 (org_stage12 tb0 str' n' Hneg')) in H1'. cbn [bind] in H1, H1'.
  apply bind_ok in H1 as [r1 [Hr1 H1]]. inversion H1; subst ss1. rewrite Hr1 in H1'. cbn [bind] in H1'. inversion H1'; subst ss1'. clear H1 H1'.
  cbn [map_res] in H2, H2'. rewrite (proj2 (org_stage12 tb0 str n Hneg)) in H2. rewrite (proj2 (org_stage12 tb0 str' n' Hneg')) in H2'. cbn [bind] in H2, H2'.
  apply bind_ok in H2 as [r2 [Hr2 H2]]. inversion H2; subst ss2. rewrite Hr2 in H2'. cbn [bind] in H2'. inversion H2'; subst ss2'. clear H2 H2'.
  (* what the tail statements are *)
  assert (T1 : Forall (fun s => In (s_instr s) Tables.instructions /\ Tables.is_origin (s_instr s) = false) r1).
  { eapply (map_res_Forall (resolve_stmt tb0)); [|exact Hrest|exact Hr1]. intros a b (Ha1 & Ha2 & _) Hab.
    destruct (resolve_stmt_keeps _ _ _ Hab) as [E _]. now rewrite E. }
  assert (T2 : Forall (fun s => Tables.is_origin (s_instr s) = false /\ v_is_none (cp_addr (s_pkg s)) = true) r2).
  { eapply (map_res_Forall translate_stmt); [|exact T1|exact Hr2]. intros a b (Ha1 & Ha2) Hab.
    destruct (translate_stmt_own _ _ Hab) as (Ei & _). rewrite Ei. split; [exact Ha2|].
    destruct (translate_stmt_wf_org a b Ha1 Hab) as [[_ Hw] _]. apply Hw. now rewrite Ei. }
  assert (N2 : Forall NL r2).
  { eapply (map_res_Forall translate_stmt (fun _ => True)); [|eapply Forall_impl; [|exact T1]; intros; exact I|exact Hr2].
    intros a b _ Hab. exact (translate_stmt_N a b Hab). }
  (* the size loop *)
  assert (O2 : Forall2 O (org2 str n :: r2) (org2 str' n' :: r2)).
  { constructor; [apply O_org|]. clear. induction r2; constructor; [apply O_refl | assumption]. }
  cbn [length] in H3, H3'. destruct (size_loop_O _ _ _ _ O2 H3) as (r3' & H3'' & O3). assert (Er3 : r3' = ss3') by congruence. subst r3'. clear H3''.
  pose proof (size_loop_rel _ _ _ H3) as S3. pose proof (size_loop_rel _ _ _ H3') as S3'.
  inversion S3 as [|? h3 ? t3 Sh St]; subst. inversion S3' as [|? h3' ? t3' Sh' St']; subst.
  assert (Eh : h3 = org2 str n) by (destruct Sh as (_&_&_&_&_&_&_&_&_&Hf); apply Hf; reflexivity).
  assert (Eh' : h3' = org2 str' n') by (destruct Sh' as (_&_&_&_&_&_&_&_&_&Hf); apply Hf; reflexivity).
  subst h3 h3'.
  assert (T3 : Forall (fun s => Tables.is_origin (s_instr s) = false /\ v_is_none (cp_addr (s_pkg s)) = true) t3).
  { eapply (Forall2_Forall rel_size); [|exact St|exact T2]. intros a b Rab (Ha1 & Ha2). destruct Rab as (_ & Ei & _ & _ & _ & Ea & _). now rewrite Ei, Ea. }
  assert (N3 : Forall NL t3).
  { eapply (Forall2_Forall rel_size); [|exact St|exact N2]. intros a b Rab Ha. destruct Rab as (_ & _ & Eo & _ & _ & _ & _ & En & _).
    unfold NL in *. now rewrite Eo, En. }
  inversion O3 as [|? ? ? ? _ Ot]; subst.
  assert (Et : t3' = t3) by (apply O_tail_eq; [exact Ot | eapply Forall_impl; [|exact T3]; intros a [Ha _]; exact Ha]). subst t3'.
  (* the address pass *)
  cbn [assign_addresses] in H4, H4'. unfold org2 in H4, H4'. cbn [s_pkg cp_addr v_is_none bind v_int andb] in H4, H4'.
  apply bind_ok in H4 as [t4 [Ht4 H4]]. inversion H4; subst ss4. clear H4.
  apply bind_ok in H4' as [t4' [Ht4' H4']]. inversion H4'; subst ss4'. clear H4'.
  cbn [cp_size] in Ht4, Ht4'.
  pose proof (assign_tail t3 _ _ _ _ _ _ ltac:(eapply Forall_impl; [|exact T3]; intros a [_ Ha]; exact Ha) Ht4 Ht4') as A4.
  replace (Z.of_N (n_int n' + 0) - Z.of_N (n_int n + 0))%Z with (Z.of_N (n_int n') - Z.of_N (n_int n))%Z in A4 by lia.
  set (D := (Z.of_N (n_int n') - Z.of_N (n_int n))%Z) in *.
  match type of H5 with fix_all (?h :: _) _ _ = _ => set (h4 := h) in * end.
  match type of H5' with fix_all (?h :: _) _ _ = _ => set (h4' := h) in * end.
  assert (Ah : A D h4 h4').
  { unfold A, h4, h4', set_pkg, pkg_but_addr. cbn. repeat split; auto; try congruence.
    exists n, n'. repeat split; auto. unfold D. lia. }
  assert (A44 : Forall2 (A D) (h4 :: t4) (h4' :: t4')) by (constructor; assumption).
  assert (T4 : Forall (fun s => Tables.is_origin (s_instr s) = false) t4).
  { eapply (assign_instr (fun j => Tables.is_origin j = false)); [exact Ht4|]. eapply Forall_impl; [|exact T3]. intros a [Ha _]; exact Ha. }
  assert (T4' : Forall (fun s => Tables.is_origin (s_instr s) = false) t4').
  { eapply (assign_instr (fun j => Tables.is_origin j = false)); [exact Ht4'|]. eapply Forall_impl; [|exact T3]. intros a [Ha _]; exact Ha. }
  (* fix_addresses *)
  pose proof (fix_all_rel _ _ _ _ H5) as F5.
  assert (N4 : Forall NL t4) by (eapply (assign_pres NL N_same_but_addr); eauto).
  assert (Hok4 : Forall (fun s => reloc_ok s /\ needs_ok s /\ org_ok s) (h4 :: t4)).
  { assert (Hrn : Forall reloc_ok (h4 :: t4)).
    { clear -F5 Hok. revert Hok. induction F5 as [|a b l l' Hab _ IH]; intros Hok; constructor; inversion Hok; subst; [eapply reloc_ok_rel_fix; eauto | auto]. }
    inversion Hrn as [|? ? Hh1 Hrt]; subst. constructor.
    - split; [exact Hh1|]. split; [apply needs_ok_of; unfold NL, h4, set_pkg; cbn; discriminate|]. intros _. split; [exists str, n; reflexivity | reflexivity].
    - clear -Hrt T4 N4. induction Hrt as [|a l Ha1 _ IH]; constructor; inversion T4; inversion N4; subst.
      + split; [exact Ha1|]. split; [now apply needs_ok_of|]. intros Ho. congruence.
      + apply IH; assumption. }
  assert (Hok4' : Forall org_ok (h4' :: t4')).
  { constructor; [intros _; split; [exists str', n'; reflexivity | reflexivity]|].
    eapply Forall_impl; [|exact T4']. intros a Ha Ho. congruence. }
  pose proof (fix_all_R D _ _ A44 _ _ _ _ _ A44 Hok4 Hok4' H5 H5') as HR. split; [exact HR|].
  exists tb0. split; [exact Hbp|]. split; [exact Hbp'|]. intros Hs. exact (backpatch_R D ss ss' (R_Sh D ss ss' HR) tb0 tb tb' Hs Hbp Hbp').
Qed.
End Programs.

(* ====================================================================================================== *)
(* 7. reading the relation                                                                                 *)
(* ====================================================================================================== *)
Lemma R_results D t t' r r' : R D t t' -> stmt_result t = Ok r -> stmt_result t' = Ok r' ->
  r_size r' = r_size r /\ r_label r' = r_label r /\ r_mn r' = r_mn r /\
  Z.of_N (r_addr r') = (Z.of_N (r_addr r) + D)%Z /\
  ((coef_stmt t * D = 0)%Z -> r_bytes r' = r_bytes r).
Proof.
  intros (E1 & E2 & _ & _ & Eop & Epost & Esz & _ & _ & _ & (x & x' & Ex & Ex' & _ & _ & Hd) & _ & _ & Hz) H H'.
  unfold stmt_result, stmt_bytes in H, H'. apply bind_ok in H as [b [Hb H]]. apply bind_ok in H' as [b' [Hb' H']].
  inversion H; inversion H'; subst r r'. cbn [r_size r_label r_mn r_addr r_bytes]. rewrite Ex, Ex'. cbn [v_int].
  repeat split; auto; try congruence.
  intros Hc. rewrite Eop, Epost, (Hz Hc) in Hb'. congruence.
Qed.

(* the coefficient, case by case *)
Lemma coef_branch s : is_relative_op (s_operand s) = true -> coef_stmt s = 0%Z.
Proof. intros H. unfold coef_stmt. now rewrite H. Qed.
Lemma coef_pcr s : is_relative_op (s_operand s) = false -> addr_offset (s_pkg s) = false -> cp_needs (s_pkg s) = true -> coef_stmt s = 0%Z.
Proof. intros H1 H2 H3. unfold coef_stmt. now rewrite H1, H2, H3. Qed.
Lemma coef_plain s : is_relative_op (s_operand s) = false -> cp_needs (s_pkg s) = false ->
  coef_stmt s = coef_value (operand_value (s_operand s)).
Proof. intros H1 H3. unfold coef_stmt, addr_offset. now rewrite H1, H3. Qed.
Lemma coef_value_cases :
  (forall k, coef_value (VAddr k) = 1%Z) /\
  (forall k c m, coef_value (VExpr (VAddr k) 43 (VNum c) m true) = 1%Z) /\
  (forall k c m, coef_value (VExpr (VNum c) 43 (VAddr k) m true) = 1%Z) /\
  (forall k c m, coef_value (VExpr (VAddr k) 45 (VNum c) m true) = 1%Z) /\
  (forall k j m, coef_value (VExpr (VAddr k) 45 (VAddr j) m true) = 0%Z) /\
  (forall c, coef_value (VNum c) = 0%Z) /\ coef_value VNone = 0%Z /\ (forall a b m, coef_value (VLR a b m) = 0%Z) /\
  (forall x, coef_value (VStr x) = 0%Z) /\ (forall x, coef_value (VMulti x) = 0%Z).
Proof. repeat split. Qed.


(* ====================================================================================================== *)
(* 9. from the source line of the ORG statement; a decidable form of reloc_ok                              *)
(* ====================================================================================================== *)
Lemma org_text i l : In i Tables.instructions -> Tables.is_origin i = true -> lit_ok l ->
  exists n, create_operand (lit_text l) i = Ok (OPseudo (lit_text l) (VNum n)) /\ n_int n = lit_value l /\ n_neg n = false.
Proof.
  intros Hin Hor Hl. destruct (org_facts i Hin Hor) as (Hp & Hmb & Hmw & Hinc & Hpd & H16 & Hsd & Hm).
  destruct (value_core_lit l None MExtended Hl) as (n & Hv & _ & Hi & Hneg). exists n. split; [|auto].
  unfold create_operand. rewrite Hp. unfold pseudo_operand. rewrite Hmb, Hmw, Hinc, Hpd, Hm. cbn [andb negb orb].
  change (text_eqb ORG_t END_t) with false. cbn [andb orb].
  unfold create_value. rewrite Hsd, H16, (value_of_text_plain l false true Hl), Hv. reflexivity.
Qed.

Lemma org_line f i l : well_formed_fields f -> find_instr (upper_t (lf_mn f)) Tables.instructions = Some i ->
  Tables.is_origin i = true -> lit_ok l -> lf_ops f = lit_text l ->
  exists n, parse_line (line_of f) = Ok (Some (mk_stmt (lf_label f) i (OPseudo (lf_ops f) (VNum n)) (lf_ops f))) /\
            n_int n = lit_value l /\ n_neg n = false.
Proof.
  intros Hf Hi Hor Hl Hops. pose proof (PClean.find_instr_In _ _ _ Hi) as Hin.
  destruct (org_facts i Hin Hor) as (_ & _ & _ & _ & _ & _ & Hsd & _).
  destruct (org_text i l Hin Hor Hl) as (n & Hc & Hv & Hneg). exists n. split; [|auto].
  rewrite (parse_line_fields f i Hf Hi Hsd), Hops, Hc. reflexivity.
Qed.

Definition flatb (v : value) : bool := match v with VExpr _ _ _ _ true => false | _ => true end.
Definition ops_okb (l : value) (op : N) (r : value) : bool := ((op =? 43) || (op =? 45)) && flatb l && flatb r.
Lemma flatb_ok v : flatb v = true -> flat v.
Proof. destruct v as [ | | | | ? ? ? ? [] | | | | ]; cbn; auto; discriminate. Qed.
Lemma ops_okb_ok l op r : ops_okb l op r = true -> ops_ok l op r.
Proof.
  unfold ops_okb, ops_ok. intros H. apply andb_true_iff in H as [H Hr]. apply andb_true_iff in H as [H Hl].
  split; [apply orb_true_iff in H as [H | H]; apply N.eqb_eq in H; auto | split; apply flatb_ok; assumption].
Qed.

Definition reloc_okb (s : stmt) : bool :=
  (match operand_value (s_operand s) with VExpr l op r _ true => ops_okb l op r | _ => true end) &&
  (match operand_left (s_operand s) with
   | Some (LVal (VExpr l op r _ true)) => ops_okb l op r && (addr_offset (s_pkg s) || (coef_expr l op r =? 1)%Z)
   | _ => true end).

Lemma reloc_okb_ok s : reloc_okb s = true -> reloc_ok s.
Proof.
  unfold reloc_okb, reloc_ok. intros H. apply andb_true_iff in H as [H1 H2]. split.
  - intros l op r m E. rewrite E in H1. now apply ops_okb_ok.
  - intros l op r m E. rewrite E in H2. apply andb_true_iff in H2 as [H2 H3]. split; [now apply ops_okb_ok|].
    intros Hao. rewrite Hao in H3. cbn [orb] in H3. now apply Z.eqb_eq in H3.
Qed.

Definition movable (s : stmt) : Prop :=
  In (s_instr s) Tables.instructions /\ Tables.is_origin (s_instr s) = false /\ Tables.is_include (s_instr s) = false.

Theorem program_relocation fm f f' i l l' rest :
  well_formed_fields f -> well_formed_fields f' ->
  find_instr (upper_t (lf_mn f)) Tables.instructions = Some i -> find_instr (upper_t (lf_mn f')) Tables.instructions = Some i ->
  Tables.is_origin i = true -> lf_label f' = lf_label f -> lit_ok l -> lit_ok l' -> lf_ops f = lit_text l -> lf_ops f' = lit_text l' ->
  Forall movable rest ->
  exists o o', parse_line (line_of f) = Ok (Some o) /\ parse_line (line_of f') = Ok (Some o') /\
    forall ss tb ss' tb', translate_program fm (o :: rest) = Ok (ss, tb) -> translate_program fm (o' :: rest) = Ok (ss', tb') ->
      Forall reloc_ok ss ->
      let D := (Z.of_N (lit_value l') - Z.of_N (lit_value l))%Z in
      Forall2 (R D) ss ss' /\
      exists tb0, backpatch ss tb0 = Ok tb /\ backpatch ss' tb0 = Ok tb' /\ (sym_ok tb0 -> rel3 (sym_rel D) tb0 tb tb').
Proof.
  intros Hf Hf' Hi Hi' Hor Hlb Hl Hl' Hops Hops' Hrest.
  destruct (org_line f i l Hf Hi Hor Hl Hops) as (n & Hp & Hv & Hneg).
  destruct (org_line f' i l' Hf' Hi' Hor Hl' Hops') as (n' & Hp' & Hv' & Hneg').
  eexists. eexists. split; [exact Hp|]. split; [exact Hp'|]. intros ss tb ss' tb' Ht Ht' Hok. cbv zeta.
  rewrite <- Hv, <- Hv'. rewrite Hlb in Ht'.
  exact (relocation fm (lf_label f) i (lf_ops f) (lf_ops f') n n' rest (PClean.find_instr_In _ _ _ Hi) Hor Hneg Hneg' Hrest ss tb ss' tb' Ht Ht' Hok).
Qed.

Lemma movable_of lines rest : parse_lines lines = Ok rest ->
  forallb (fun s => negb (Tables.is_origin (s_instr s)) && negb (Tables.is_include (s_instr s))) rest = true -> Forall movable rest.
Proof.
  intros Hp Hb. pose proof (parse_lines_instr _ _ Hp) as Hin. rewrite forallb_forall in Hb. rewrite Forall_forall in *.
  intros s Hs. specialize (Hb s Hs). apply andb_true_iff in Hb as [H1 H2]. apply negb_true_iff in H1. apply negb_true_iff in H2.
  split; [exact (Hin s Hs) | auto].
Qed.
