(* PDiskAlloc.v — allocation and space accounting of the disk writer model (C15), and the
   well-formedness invariant of the writer's history state used by C08/C07. *)
From V Require Import Base.
From V.spec Require Import SpecDisk.
From V.model Require Import MDisk.
From V.gen Require Tables.
From Coq Require Import FinFun Permutation.
Local Open Scope N_scope.

Definition in_range (l : list N) : Prop := Forall (fun g => g < 68) l.
Definition covers (order : list N) : Prop := forall g, g < 68 -> In g order.
Definition order_ok (order : list N) : Prop := in_range order /\ covers order.

Lemma in_use_In u g : in_use u g = true <-> In g u.
Proof.
  unfold in_use. rewrite existsb_exists. split.
  - intros [x [Hx E]]. apply N.eqb_eq in E. now subst.
  - intros H. exists g. split; [assumption | apply N.eqb_refl].
Qed.

Lemma in_use_false u g : in_use u g = false <-> ~ In g u.
Proof. rewrite <- in_use_In. destruct (in_use u g); split; congruence. Qed.

(* ---- pigeonhole over granule numbers 0..67 ---- *)

Definition all_granules : list N := map N.of_nat (seq 0 68).

Lemma all_granules_spec g : In g all_granules <-> g < 68.
Proof.
  unfold all_granules. rewrite in_map_iff. split.
  - intros [n [<- Hn]]. apply in_seq in Hn. lia.
  - intros H. exists (N.to_nat g). split; [apply N2Nat.id | apply in_seq; lia].
Qed.

Lemma all_granules_length : length all_granules = 68%nat.
Proof. reflexivity. Qed.

Lemma all_granules_NoDup : NoDup all_granules.
Proof.
  unfold all_granules. apply FinFun.Injective_map_NoDup; [|apply seq_NoDup].
  intros a b H. now apply Nat2N.inj.
Qed.

Lemma range_length u : NoDup u -> in_range u -> (length u <= 68)%nat.
Proof.
  intros Hn Hr. rewrite <- all_granules_length. apply NoDup_incl_length; [assumption|].
  intros g Hg. apply all_granules_spec. unfold in_range in Hr. rewrite Forall_forall in Hr. now apply Hr.
Qed.

Lemma exists_free u : NoDup u -> in_range u -> (length u < 68)%nat -> exists g, g < 68 /\ ~ In g u.
Proof.
  intros Hn Hr Hl.
  destruct (existsb (fun g => negb (in_use u g)) all_granules) eqn:E.
  - apply existsb_exists in E as [g [Hg Hf]]. exists g. split; [now apply all_granules_spec|].
    apply in_use_false. now destruct (in_use u g).
  - exfalso. assert (Hincl : incl all_granules u).
    { intros g Hg. apply in_use_In. destruct (in_use u g) eqn:Eu; [reflexivity|].
      assert (existsb (fun g => negb (in_use u g)) all_granules = true).
      { apply existsb_exists. exists g. split; [assumption | now rewrite Eu]. }
      congruence. }
    pose proof (NoDup_incl_length all_granules_NoDup Hincl) as H. rewrite all_granules_length in H. lia.
Qed.

(* ---- find_free / alloc ---- *)

Lemma find_free_ok order u : in_range order -> (exists g, In g order /\ ~ In g u) ->
  exists g, find_free order u = Ok g /\ In g order /\ ~ In g u /\ g < 68.
Proof.
  intros Hr. induction order as [|x r IH]; intros [g [Hg Hn]]; [destruct Hg|].
  inversion Hr as [|? ? Hx Hr']; subst. cbn [find_free].
  assert (E : (67 <? x) = false) by (apply N.ltb_ge; lia). rewrite E.
  destruct (in_use u x) eqn:Eu.
  - destruct Hg as [-> | Hg]; [apply in_use_In in Eu; contradiction|].
    destruct (IH Hr' (ex_intro _ g (conj Hg Hn))) as [g' (H1 & H2 & H3 & H4)].
    exists g'. repeat split; try assumption. now right.
  - exists x. repeat split; try assumption; [now left | now apply in_use_false].
Qed.

Lemma find_free_res order u : in_range order ->
  (exists g, find_free order u = Ok g /\ In g order /\ ~ In g u) \/ (find_free order u = Diag 11 /\ forall g, In g order -> In g u).
Proof.
  intros Hr. induction order as [|x r IH]; [right; split; [reflexivity | intros g []]|].
  inversion Hr as [|? ? Hx Hr']; subst. cbn [find_free].
  assert (E : (67 <? x) = false) by (apply N.ltb_ge; lia). rewrite E.
  destruct (in_use u x) eqn:Eu.
  - destruct (IH Hr') as [[g (H1 & H2 & H3)] | [H1 H2]].
    + left. exists g. repeat split; try assumption. now right.
    + right. split; [assumption|]. intros g [-> | Hg]; [now apply in_use_In | now apply H2].
  - left. exists x. repeat split; [now left | now apply in_use_false].
Qed.

Lemma alloc_ok order : order_ok order -> forall n u,
  NoDup u -> in_range u -> (n + length u <= 68)%nat ->
  exists gs, alloc order u n = Ok gs /\ length gs = n /\ NoDup (gs ++ u) /\ in_range gs.
Proof.
  intros [Hr Hc]. induction n as [|n IH]; intros u Hn Hu Hl.
  - exists []. repeat split; try assumption; constructor.
  - destruct (exists_free u Hn Hu ltac:(lia)) as [g0 [Hg0 Hf0]].
    destruct (find_free_ok order u Hr (ex_intro _ g0 (conj (Hc g0 Hg0) Hf0))) as [g (E & Hin & Hnot & Hlt)].
    destruct (IH (g :: u)) as [gs (E2 & L2 & N2 & R2)].
    + now constructor.
    + now constructor.
    + cbn [length]. lia.
    + exists (g :: gs). cbn [alloc]. rewrite E. cbn [bind]. rewrite E2. cbn [bind].
      repeat split.
      * cbn [length]. now rewrite L2.
      * cbn [app]. apply NoDup_cons.
        -- intro Hi. apply NoDup_remove_2 in N2. apply N2. apply in_app_or in Hi as [Hi | Hi]; apply in_or_app; auto.
        -- apply NoDup_remove_1 in N2. exact N2.
      * now constructor.
Qed.

Lemma alloc_sound order : in_range order -> forall n u gs,
  alloc order u n = Ok gs -> NoDup u ->
  length gs = n /\ NoDup (gs ++ u) /\ in_range gs.
Proof.
  intros Hr. induction n as [|n IH]; intros u gs H Hn.
  - cbn in H. inversion H; subst. repeat split; [assumption | constructor].
  - cbn [alloc] in H. destruct (find_free_res order u Hr) as [[g (E & Hin & Hnot)] | [E _]]; rewrite E in H; cbn [bind] in H; [|discriminate].
    destruct (alloc order (g :: u) n) as [r| | | |] eqn:E2; cbn [bind] in H; try discriminate.
    inversion H; subst. destruct (IH (g :: u) r E2 ltac:(now constructor)) as (L & N2 & R).
    repeat split.
    + cbn [length]. now rewrite L.
    + cbn [app]. apply NoDup_cons.
      * intro Hi. apply NoDup_remove_2 in N2. apply N2. apply in_app_or in Hi as [Hi | Hi]; apply in_or_app; auto.
      * apply NoDup_remove_1 in N2. exact N2.
    + constructor; [|assumption]. unfold in_range in Hr. rewrite Forall_forall in Hr. now apply Hr.
Qed.

Lemma alloc_outcome order : in_range order -> forall n u,
  (exists gs, alloc order u n = Ok gs) \/ alloc order u n = Diag 11.
Proof.
  intros Hr. induction n as [|n IH]; intros u; [left; now exists []|].
  cbn [alloc]. destruct (find_free_res order u Hr) as [[g (E & _)] | [E _]]; rewrite E; cbn [bind]; [|now right].
  destruct (IH (g :: u)) as [[gs E2] | E2]; rewrite E2; cbn [bind]; [left; eauto | now right].
Qed.

Lemma alloc_fail order : in_range order -> forall n u,
  NoDup u -> in_range u -> (68 < n + length u)%nat -> alloc order u n = Diag 11.
Proof.
  intros Hr n u Hn Hu Hl. destruct (alloc_outcome order Hr n u) as [[gs E] | E]; [|assumption].
  exfalso. destruct (alloc_sound order Hr n u gs E Hn) as (L & N2 & R).
  assert (H : (length (gs ++ u) <= 68)%nat).
  { apply range_length; [assumption|]. apply Forall_app. now split. }
  rewrite app_length in H. lia.
Qed.

(* ---- the invariant of the history state ---- *)

Definition chain_ok (fg : dfile * list N) : Prop :=
  length (snd fg) = needed (fst fg) /\ N.of_nat (length (d_data (fst fg))) <= 65535.

Definition wf_state (st : state) : Prop :=
  NoDup (used st) /\ in_range (used st) /\ Forall chain_ok st.

Definition free (st : state) : nat := (68 - length (used st))%nat.

Lemma used_app st fg : used (st ++ [fg]) = used st ++ snd fg.
Proof. unfold used. rewrite map_app, concat_app. cbn. now rewrite app_nil_r. Qed.

Lemma needed_pos f : (1 <= needed f)%nat. Proof. unfold needed. lia. Qed.

Lemma state_length_le st : Forall chain_ok st -> (length st <= length (used st))%nat.
Proof.
  induction 1 as [|[f gs] st [Hl _] _ IH]; [cbn; lia|].
  unfold used in *. cbn [map concat length snd fst] in *. rewrite app_length.
  pose proof (needed_pos f). lia.
Qed.

Lemma wf_nil : wf_state []. Proof. repeat split; constructor. Qed.

Lemma slots_ok : 68 <? Tables.dir_slots_searched = true.
Proof. vm_compute. reflexivity. Qed.

(* a file that fits is stored in exactly [needed f] granules, all previously free, and one slot *)
Theorem add_file_fits order st f :
  order_ok order -> (68 <= length order)%nat -> wf_state st ->
  N.of_nat (length (d_data f)) <= 65535 -> (needed f <= free st)%nat ->
  exists gs, add_file order st f = Ok (st ++ [(f, gs)]) /\ length gs = needed f /\
             (forall g, In g gs -> g < 68 /\ ~ In g (used st)) /\ NoDup gs /\
             wf_state (st ++ [(f, gs)]) /\ free (st ++ [(f, gs)]) = (free st - needed f)%nat.
Proof.
  intros Ho Hlen (Hn & Hr & Hc) Hd Hfit. unfold add_file.
  assert (E1 : (65535 <? N.of_nat (length (d_data f))) = false) by (apply N.ltb_ge; lia). rewrite E1.
  assert (E2 : Nat.ltb (length order) 68 = false) by (apply Nat.ltb_ge; lia). rewrite E2.
  pose proof (range_length _ Hn Hr) as Hu. unfold free in Hfit.
  destruct (alloc_ok order Ho (needed f) (used st) Hn Hr ltac:(lia)) as [gs (E & L & N2 & R)].
  rewrite E. cbn [bind].
  pose proof (state_length_le st Hc) as Hs. pose proof (needed_pos f) as Hp.
  assert (E3 : (Tables.dir_slots_searched <=? N.of_nat (length st)) = false).
  { apply N.leb_gt. pose proof slots_ok as S. apply N.ltb_lt in S. lia. }
  rewrite E3. exists gs. split; [reflexivity|]. split; [assumption|].
  assert (Hdisj : forall g, In g gs -> g < 68 /\ ~ In g (used st)).
  { intros g Hg. split.
    - unfold in_range in R. rewrite Forall_forall in R. now apply R.
    - intro Hi. revert Hg Hi. clear -N2. induction gs as [|x gs IH]; [intros []|].
      cbn [app] in N2. inversion N2 as [|? ? Hx N3]; subst. intros [-> | Hg] Hi.
      + apply Hx. apply in_or_app. now right.
      + now apply IH. }
  split; [assumption|]. split; [clear -N2; induction gs as [|x gs IHg]; [constructor|]; cbn [app] in N2; inversion N2 as [|? ? Hx N3]; subst; constructor; [intro Hi; apply Hx; apply in_or_app; now left | now apply IHg]|].
  split.
  - unfold wf_state. rewrite used_app. repeat split.
    + clear -N2 Hn. revert N2. generalize (used st) as u. intros u N2.
      (* NoDup (gs ++ u) -> NoDup (u ++ gs) *)
      apply (Permutation.Permutation_NoDup (l := gs ++ u)); [apply Permutation.Permutation_app_comm | assumption].
    + apply Forall_app. now split.
    + apply Forall_app. split; [assumption|]. constructor; [|constructor]. split; [exact L | exact Hd].
  - unfold free. rewrite used_app, app_length. cbn [snd]. rewrite L. lia.
Qed.

(* a file that needs more granules than are free fails with the tool's "no free granules" error *)
Theorem add_file_overflow order st f :
  in_range order -> (68 <= length order)%nat -> wf_state st ->
  N.of_nat (length (d_data f)) <= 65535 -> (free st < needed f)%nat ->
  add_file order st f = Diag 11.
Proof.
  intros Ho Hlen (Hn & Hr & Hc) Hd Hfit. unfold add_file.
  assert (E1 : (65535 <? N.of_nat (length (d_data f))) = false) by (apply N.ltb_ge; lia). rewrite E1.
  assert (E2 : Nat.ltb (length order) 68 = false) by (apply Nat.ltb_ge; lia). rewrite E2.
  unfold free in Hfit. rewrite (alloc_fail order Ho (needed f) (used st) Hn Hr); [reflexivity | lia].
Qed.

(* whatever happens, add_file either stores the file (state extended by exactly that file) or
   ends in one of the tool's diagnostics; the state handed in is never altered *)
Theorem add_file_outcome order st f :
  in_range order -> N.of_nat (length (d_data f)) <= 65535 ->
  (exists gs, add_file order st f = Ok (st ++ [(f, gs)])) \/ (exists c, add_file order st f = Diag c).
Proof.
  intros Ho Hd. unfold add_file.
  assert (E1 : (65535 <? N.of_nat (length (d_data f))) = false) by (apply N.ltb_ge; lia). rewrite E1.
  destruct (Nat.ltb (length order) 68); [right; eauto|].
  destruct (alloc_outcome order Ho (needed f) (used st)) as [[gs E] | E]; rewrite E; cbn [bind]; [|right; eauto].
  destruct (Tables.dir_slots_searched <=? N.of_nat (length st)); [right; eauto | left; eauto].
Qed.

(* the invariant holds along every sequence of additions from the blank disk *)
Lemma add_file_wf order st f st' :
  in_range order -> wf_state st -> add_file order st f = Ok st' -> wf_state st'.
Proof.
  intros Ho (Hn & Hr & Hc) H. unfold add_file in H.
  destruct (65535 <? N.of_nat (length (d_data f))) eqn:E1; [discriminate|].
  destruct (Nat.ltb (length order) 68); [discriminate|].
  destruct (alloc order (used st) (needed f)) as [gs| | | |] eqn:E; cbn [bind] in H; try discriminate.
  destruct (Tables.dir_slots_searched <=? N.of_nat (length st)); [discriminate|].
  inversion H; subst. destruct (alloc_sound order Ho _ _ _ E Hn) as (L & N2 & R).
  unfold wf_state. rewrite used_app. repeat split.
  - apply (Permutation.Permutation_NoDup (l := gs ++ used st)); [apply Permutation.Permutation_app_comm | assumption].
  - apply Forall_app. now split.
  - apply Forall_app. split; [assumption|]. constructor; [|constructor]. split; [exact L|].
    cbn [fst]. apply N.ltb_ge in E1. lia.
Qed.

Theorem add_files_wf order : in_range order -> forall fs st st',
  wf_state st -> add_files order st fs = Ok st' -> wf_state st'.
Proof.
  intros Ho. induction fs as [|f fs IH]; intros st st' Hw H.
  - cbn in H. now inversion H; subst.
  - cbn [add_files] in H. destruct (add_file order st f) as [st1| | | |] eqn:E; cbn [bind] in H; try discriminate.
    eapply IH; [|exact H]. eapply add_file_wf; eauto.
Qed.

Lemma add_files_files order : forall fs st st',
  add_files order st fs = Ok st' -> map fst st' = map fst st ++ fs.
Proof.
  induction fs as [|f fs IH]; intros st st' H.
  - cbn in H. inversion H; subst. now rewrite app_nil_r.
  - cbn [add_files] in H. destruct (add_file order st f) as [st1| | | |] eqn:E; cbn [bind] in H; try discriminate.
    rewrite (IH _ _ H). unfold add_file in E.
    destruct (65535 <? _); [discriminate|]. destruct (Nat.ltb _ 68); [discriminate|].
    destruct (alloc _ _ _) as [gs| | | |]; cbn [bind] in E; try discriminate.
    destruct (_ <=? _); [discriminate|]. inversion E; subst.
    rewrite map_app. cbn [map fst]. now rewrite <- app_assoc.
Qed.

(* the default fill order (regenerated from disk.py on every run) reaches every granule *)
Definition order_okb (order : list N) : bool :=
  forallb (fun g => g <? 68) order && forallb (fun g => existsb (N.eqb g) order) all_granules
  && Nat.leb 68 (length order).

Lemma order_okb_ok order : order_okb order = true -> order_ok order /\ (68 <= length order)%nat.
Proof.
  unfold order_okb. rewrite !andb_true_iff. intros [[H1 H2] H3]. split; [split|].
  - unfold in_range. rewrite Forall_forall. rewrite forallb_forall in H1. intros g Hg. apply N.ltb_lt. now apply H1.
  - intros g Hg. rewrite forallb_forall in H2. specialize (H2 g (proj2 (all_granules_spec g) Hg)).
    apply existsb_exists in H2 as [x [Hx E]]. apply N.eqb_eq in E. now subst.
  - now apply Nat.leb_le.
Qed.

Theorem default_order_ok : order_ok default_order /\ (68 <= length default_order)%nat.
Proof. apply order_okb_ok. vm_compute. reflexivity. Qed.

(* needed = the minimum number of granules holding the stream, or one more at exact multiples *)
Theorem needed_minimal f :
  ((needed f - 1) * GR <= slen f)%nat /\ (slen f < needed f * GR)%nat.
Proof.
  unfold needed, GR. pose proof (Nat.div_mod (slen f) 2304 ltac:(lia)) as H.
  pose proof (Nat.mod_upper_bound (slen f) 2304 ltac:(lia)). lia.
Qed.
