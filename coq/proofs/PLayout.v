(* PLayout.v — the address pass of Program.translate_statements and what the later passes keep fixed:
   addresses advance by exactly the size reserved for each statement (property C02), which is also
   the arithmetic backbone of the branch-displacement theorems (C03). *)
From V Require Import Base.
From V.model Require Import MText MValues MOperands MProgram.
From V.gen Require Tables.
Local Open Scope N_scope.

Lemma bind_ok {A B} (r : res A) (k : A -> res B) b : bind r k = Ok b -> exists a, r = Ok a /\ k a = Ok b.
Proof. destruct r; cbn; intros H; try discriminate. eauto. Qed.

Lemma as_te_ok {A} (r : res A) a : as_translation_error r = Ok a -> r = Ok a.
Proof. unfold as_translation_error. destruct r; intros H; try discriminate; assumption. Qed.

Lemma map_res_spec {A B} (f : A -> res B) : forall l l', map_res f l = Ok l' ->
  length l' = length l /\ forall i a, nth_error l i = Some a -> exists b, nth_error l' i = Some b /\ f a = Ok b.
Proof.
  induction l as [|x l IH]; intros l' H; cbn [map_res] in H.
  - inversion H; subst. split; [reflexivity|]. intros [|i] a Hn; discriminate.
  - apply bind_ok in H as [b [Hb H]]. apply bind_ok in H as [rest [Hr H]]. inversion H; subst.
    destruct (IH rest Hr) as [Hl Hi]. split; [cbn; now rewrite Hl|].
    intros [|i] a Hn; cbn in Hn.
    + inversion Hn; subst. exists b. split; [reflexivity | exact Hb].
    + destruct (Hi i a Hn) as [b' [H1 H2]]. exists b'. split; [exact H1 | exact H2].
Qed.

(* ---------- numv ---------- *)
Lemma numv_ok v x : numv v = Ok x -> exists n, x = VNum n /\ n_int n = v /\ n_neg n = false.
Proof.
  unfold numv, num_of_int. cbn [negb andb]. destruct (65535 <? v); cbn [bind]; [discriminate|].
  destruct (post_init v _ _) as [h m]. cbn [bind]. intros H. inversion H; subst. eexists. split; [reflexivity|]. split; reflexivity.
Qed.

Lemma numv_int v x : numv v = Ok x -> v_int x = v.
Proof. intros H. destruct (numv_ok v x H) as [n [-> [Hn _]]]. exact Hn. Qed.

(* ---------- the address pass ---------- *)
Definition addr_of_stmt (s : stmt) : N := v_int (cp_addr (s_pkg s)).
Definition size_of_stmt (s : stmt) : N := cp_size (s_pkg s).
Definition has_own_address (s : stmt) : bool := negb (v_is_none (cp_addr (s_pkg s))).

(* s' is s with only its address filled in *)
Definition same_but_addr (s s' : stmt) : Prop :=
  s_label s' = s_label s /\ s_instr s' = s_instr s /\ s_operand s' = s_operand s /\ s_opstr s' = s_opstr s /\
  s_fixed s' = s_fixed s /\ s_hint s' = s_hint s /\
  cp_op (s_pkg s') = cp_op (s_pkg s) /\ cp_post (s_pkg s') = cp_post (s_pkg s) /\ cp_add (s_pkg s') = cp_add (s_pkg s) /\
  cp_size (s_pkg s') = cp_size (s_pkg s) /\ cp_needs (s_pkg s') = cp_needs (s_pkg s) /\
  cp_choices (s_pkg s') = cp_choices (s_pkg s) /\ cp_max (s_pkg s') = cp_max (s_pkg s).

(* the recurrence the pass implements: a statement without an address of its own (everything but ORG)
   is placed at the running address; the running address then advances by the statement's size *)
Fixpoint placed (ss ss' : list stmt) (a0 : N) : Prop :=
  match ss, ss' with
  | [], [] => True
  | s :: r, s' :: r' =>
      same_but_addr s s' /\
      (has_own_address s = false -> addr_of_stmt s' = a0) /\
      (has_own_address s = true -> cp_addr (s_pkg s') = cp_addr (s_pkg s)) /\
      placed r r' (addr_of_stmt s' + size_of_stmt s)
  | _, _ => False
  end.

Lemma assign_placed : forall ss a0 em ss', assign_addresses ss a0 em = Ok ss' -> placed ss ss' a0.
Proof.
  induction ss as [|s r IH]; intros a0 em ss' H; cbn [assign_addresses] in H.
  - inversion H; subst. exact I.
  - apply bind_ok in H as [[av a] [Hpa H]]. destruct (em && negb (a =? a0)); [discriminate|].
    apply bind_ok in H as [rest [Hr H]]. inversion H; subst. clear H.
    cbn [placed]. unfold same_but_addr, addr_of_stmt, size_of_stmt, has_own_address, set_pkg. cbn.
    assert (Ha : a = v_int av /\ (v_is_none (cp_addr (s_pkg s)) = true -> v_int av = a0) /\
                 (v_is_none (cp_addr (s_pkg s)) = false -> av = cp_addr (s_pkg s))).
    { destruct (v_is_none (cp_addr (s_pkg s))) eqn:En.
      - apply bind_ok in Hpa as [x [Hx Hpa]]. inversion Hpa; subst. apply as_te_ok in Hx.
        rewrite (numv_int _ _ Hx). repeat split; auto; discriminate.
      - destruct (cp_addr (s_pkg s)); inversion Hpa; subst; repeat split; auto; discriminate. }
    destruct Ha as [-> [H1 H2]].
    split; [repeat split; reflexivity|].
    split; [intros Hn; apply negb_false_iff in Hn; auto|].
    split; [intros Hn; apply negb_true_iff in Hn; auto|].
    eapply IH. exact Hr.
Qed.

Lemma placed_length : forall ss ss' a0, placed ss ss' a0 -> length ss' = length ss.
Proof.
  induction ss as [|s r IH]; intros [|s' r'] a0 H; cbn in H; try contradiction; [reflexivity|].
  destruct H as (_ & _ & _ & H). cbn. f_equal. eapply IH; eauto.
Qed.

Lemma placed_pointwise : forall ss ss' a0 i s, placed ss ss' a0 -> nth_error ss i = Some s ->
  exists s', nth_error ss' i = Some s' /\ same_but_addr s s' /\
             (has_own_address s = true -> cp_addr (s_pkg s') = cp_addr (s_pkg s)).
Proof.
  induction ss as [|x r IH]; intros [|x' r'] a0 i s H Hn; cbn in H; try contradiction; [destruct i; discriminate|].
  destruct H as (H1 & H2 & H3 & H4). destruct i as [|i]; cbn in Hn.
  - inversion Hn; subst. exists x'. auto.
  - exact (IH r' _ i s H4 Hn).
Qed.

(* THE address theorem: a statement that has no address of its own sits exactly size bytes after
   its predecessor *)
Theorem placed_adjacent : forall ss ss' a0 i a' b b',
  placed ss ss' a0 -> nth_error ss' i = Some a' -> nth_error ss' (S i) = Some b' ->
  nth_error ss (S i) = Some b -> has_own_address b = false ->
  addr_of_stmt b' = addr_of_stmt a' + size_of_stmt a'.
Proof.
  induction ss as [|x r IH]; intros [|x' r'] a0 i a' b b' H Ha Hb' Hb Hown; cbn in H; try contradiction;
    [destruct i; discriminate|].
  destruct H as (H1 & H2 & H3 & H4). destruct i as [|i]; cbn in Ha, Hb', Hb.
  - inversion Ha; subst x'. destruct r as [|y r2]; [discriminate|]. destruct r' as [|y' r2']; [contradiction|].
    inversion Hb; subst y. inversion Hb'; subst y'. cbn in H4. destruct H4 as (_ & G & _ & _).
    rewrite (G Hown). f_equal. unfold size_of_stmt. destruct H1 as (_&_&_&_&_&_&_&_&_&Hs&_). now rewrite Hs.
  - exact (IH r' _ i a' b b' H4 Ha Hb' Hb Hown).
Qed.

(* the first statement *)
Lemma placed_first s r s' r' a0 : placed (s :: r) (s' :: r') a0 -> has_own_address s = false -> addr_of_stmt s' = a0.
Proof. cbn. intros (_ & H & _) Hn. auto. Qed.

(* sum of sizes over a contiguous run: if none of the statements i+1..i+k has an address of its own,
   addr(i+k) = addr(i) + sum of the sizes of i..i+k-1 *)
Theorem placed_run : forall k ss ss' a0 i a' b',
  placed ss ss' a0 -> nth_error ss' i = Some a' -> nth_error ss' (i + k) = Some b' ->
  (forall j b, (i < j <= i + k)%nat -> nth_error ss j = Some b -> has_own_address b = false) ->
  addr_of_stmt b' = addr_of_stmt a' + sum_range (fun x => cp_size (s_pkg x)) ss' i k.
Proof.
  induction k as [|k IH]; intros ss ss' a0 i a' b' H Ha Hb Hown.
  - rewrite Nat.add_0_r in Hb. rewrite Ha in Hb. inversion Hb; subst. cbn [sum_range]. lia.
  - cbn [sum_range]. rewrite Ha.
    assert (Hl := placed_length _ _ _ H).
    assert (Hi1 : (S i < length ss')%nat) by (apply nth_error_Some; replace (i + S k)%nat with (S i + k)%nat in Hb by lia;
      intro E; assert (length ss' <= S i + k)%nat by (apply nth_error_None in E; lia); apply nth_error_None in H0; congruence).
    destruct (nth_error ss' (S i)) as [c'|] eqn:Ec; [|apply nth_error_None in Ec; lia].
    destruct (nth_error ss (S i)) as [c|] eqn:Ecs; [|apply nth_error_None in Ecs; lia].
    rewrite (IH ss ss' a0 (S i) c' b' H Ec); [| now replace (S i + k)%nat with (i + S k)%nat by lia
                                              | intros j b Hj; apply Hown; lia].
    rewrite (placed_adjacent ss ss' a0 i a' c c' H Ha Ec Ecs (Hown (S i) c ltac:(lia) Ecs)).
    unfold size_of_stmt. lia.
Qed.
