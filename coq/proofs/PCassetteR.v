(* PCassetteR.v — the model reader returns exactly the files of ANY well-formed tape stream
   (arbitrary leader/gap lengths, any 1..255 chunking, gaps between data blocks), provided
   no file has empty data; and the writer's output is such a stream (C06). *)
From V Require Import Base.
From V.spec Require Import SpecTape.
From V.model Require Import MCassette.
From V.proofs Require Import PCassetteW.
Local Open Scope N_scope.

Definition gap_byte (b : byte) : Prop := b = 0 \/ b = 85.
Definition gap_bytes (g : list byte) : Prop := Forall gap_byte g.

(* general name-file block payload: 8 name bytes, type, data type, gap flag, two addresses *)
Definition gen_header (f : cfile) (gapflag : byte) : list byte :=
  c_name f ++ [c_type f; c_dtype f; gapflag; hi (c_load f); lo (c_load f); hi (c_exec f); lo (c_exec f)].

(* data section: (gap, data block)* gap, EOF block *)
Inductive wf_data : list byte -> list byte -> Prop :=
| wf_eof : forall g, gap_bytes g -> wf_data (g ++ eof_block) []
| wf_blk : forall g pl s d, gap_bytes g -> pl <> [] -> (length pl <= 255)%nat ->
    wf_data s d -> wf_data (g ++ block 1 pl ++ s) (pl ++ d).

Definition wf_meta (f : cfile) : Prop :=
  length (c_name f) = 8%nat /\ forallb (fun b => b <? 128) (c_name f) = true /\
  c_load f < 65536 /\ c_exec f < 65536.

Inductive wf_stream : list byte -> list cfile -> Prop :=
| wf_end : forall g, gap_bytes g -> wf_stream g []
| wf_file : forall g f gapflag sd rest fs, gap_bytes g -> wf_meta f ->
    wf_data sd (c_data f) -> wf_stream rest fs ->
    wf_stream (g ++ block 0 (gen_header f gapflag) ++ sd ++ rest) (f :: fs).

(* ---- seeking over gaps ---- *)

Lemma seek_gap_frame2 g r : gap_bytes g -> seek [85; 60] (g ++ 85 :: 60 :: r) = Some (85 :: 60 :: r).
Proof.
  induction 1 as [|b g Hb Hg IH].
  - reflexivity.
  - cbn [app seek]. destruct Hb as [-> | ->].
    + cbn [starts_with]. change (85 =? 0) with false. cbn. exact IH.
    + cbn [starts_with]. change (85 =? 85) with true. cbn [andb].
      destruct g as [|c g'].
      * cbn [app]. change (60 =? 85) with false. cbn [andb]. exact IH.
      * inversion Hg as [|? ? Hc _]; subst. cbn [app].
        assert (E : (60 =? c) = false) by (destruct Hc as [-> | ->]; reflexivity).
        rewrite E. cbn [andb]. exact IH.
Qed.

Lemma seek_gap_frame3 g r : gap_bytes g ->
  seek [85; 60; 0] (g ++ 85 :: 60 :: 0 :: r) = Some (85 :: 60 :: 0 :: r).
Proof.
  induction 1 as [|b g Hb Hg IH].
  - reflexivity.
  - cbn [app seek]. destruct Hb as [-> | ->].
    + cbn [starts_with]. change (85 =? 0) with false. cbn. exact IH.
    + cbn [starts_with]. change (85 =? 85) with true. cbn [andb].
      destruct g as [|c g'].
      * cbn [app]. change (60 =? 85) with false. cbn [andb]. exact IH.
      * inversion Hg as [|? ? Hc _]; subst. cbn [app].
        assert (E : (60 =? c) = false) by (destruct Hc as [-> | ->]; reflexivity).
        rewrite E. cbn [andb]. exact IH.
Qed.

Lemma seek_gap_none p g : gap_bytes g -> (exists q, p = 85 :: 60 :: q) -> seek p g = None.
Proof.
  intros Hg [q ->]. induction Hg as [|b g Hb Hg IH]; [reflexivity|].
  cbn [seek starts_with]. destruct Hb as [-> | ->].
  - change (85 =? 0) with false. cbn. exact IH.
  - change (85 =? 85) with true. cbn [andb]. destruct g as [|c g'].
    + cbn. reflexivity.
    + inversion Hg as [|? ? Hc _]; subst.
      assert (E : (60 =? c) = false) by (destruct Hc as [-> | ->]; reflexivity).
      rewrite E. cbn [andb]. exact IH.
Qed.

(* ---- read_blocks over a well-formed data section ---- *)

Lemma read_blocks_S f bs : read_blocks (S f) bs = read_blocks_step (read_blocks f) bs.
Proof. reflexivity. Qed.

Lemma take_exact_app pl r : take_exact (length pl) (pl ++ r) = Ok (pl, r).
Proof.
  unfold take_exact. rewrite app_length.
  assert (E : Nat.leb (length pl) (length pl + length r) = true) by (apply Nat.leb_le; lia).
  rewrite E, firstn_app, Nat.sub_diag, firstn_all, skipn_app, Nat.sub_diag, skipn_all.
  cbn. now rewrite app_nil_r.
Qed.

Lemma read_blocks_wf : forall sd d, wf_data sd d ->
  forall fuel rest, (length sd < fuel)%nat -> read_blocks fuel (sd ++ rest) = Ok (d, rest).
Proof.
  induction 1 as [g Hg | g pl s d Hg Hne Hl Hs IH]; intros fuel rest Hf.
  - destruct fuel; [lia|]. rewrite read_blocks_S. unfold read_blocks_step.
    rewrite <- app_assoc. unfold eof_block. cbn [app].
    rewrite seek_gap_frame2 by assumption. reflexivity.
  - destruct fuel as [|fuel]; [lia|]. rewrite read_blocks_S. unfold read_blocks_step.
    repeat rewrite <- app_assoc. unfold block at 1. cbn [app].
    rewrite seek_gap_frame2 by assumption.
    cbn [skipn next_byte bind]. change (1 =? 255) with false. change (1 =? 1) with true. cbn iota.
    rewrite Nat2N.id. rewrite <- app_assoc. rewrite take_exact_app. cbn [bind app skipn].
    rewrite IH.
    + reflexivity.
    + rewrite !app_length, block_length in Hf. lia.
Qed.

Lemma wf_data_nonempty sd d : wf_data sd d -> (6 <= length sd)%nat.
Proof. induction 1; rewrite !app_length; cbn [length eof_block]; try rewrite block_length; lia. Qed.

(* ---- read_file on a well-formed file ---- *)

Lemma gen_header_length f gf : length (c_name f) = 8%nat -> length (gen_header f gf) = 15%nat.
Proof. intros H. unfold gen_header. rewrite app_length, H. reflexivity. Qed.

Lemma read_file_wf g f gf sd rest :
  gap_bytes g -> wf_meta f -> wf_data sd (c_data f) -> c_data f <> [] ->
  read_file (g ++ block 0 (gen_header f gf) ++ sd ++ rest) = Ok (Some f, rest).
Proof.
  intros Hg (Hn & Hascii & Hld & Hex) Hsd Hne. unfold read_file.
  unfold block. rewrite (gen_header_length f gf Hn). cbn [app N.of_nat].
  change (N.pos (Pos.of_succ_nat 14)) with 15.
  rewrite seek_gap_frame3 by assumption.
  cbn [skipn]. unfold gen_header. repeat rewrite <- app_assoc.
  replace 8%nat with (length (c_name f)) at 1.
  rewrite take_exact_app. cbn [bind]. rewrite Hascii. cbn [negb app next_byte bind read_word skipn].
  rewrite !hi_lo_word by assumption.
  rewrite (read_blocks_wf sd (c_data f) Hsd).
  - cbn [bind]. destruct f as [nm ty dt ld ex d]; cbn in *. destruct d; [congruence|reflexivity].
  - cbn [length]. rewrite app_length. lia.
Qed.

Lemma read_file_gap g : gap_bytes g -> read_file g = Ok (None, []).
Proof. intros Hg. unfold read_file. rewrite seek_gap_none; [reflexivity|assumption|eauto]. Qed.

(* ---- list_files over a well-formed stream ---- *)

Theorem list_files_fuel_wf : forall bs fs, wf_stream bs fs ->
  Forall (fun f => c_data f <> []) fs ->
  forall fuel, (length bs < fuel)%nat -> list_files_fuel fuel bs = Ok fs.
Proof.
  induction 1 as [g Hg | g f gf sd rest fs Hg Hm Hsd Hrest IH]; intros Hne fuel Hf.
  - destruct fuel; [lia|]. cbn [list_files_fuel]. unfold list_files_step.
    now rewrite read_file_gap.
  - destruct fuel as [|fuel]; [lia|]. cbn [list_files_fuel]. unfold list_files_step.
    inversion Hne as [|? ? Hnf Hnfs]; subst.
    rewrite read_file_wf by assumption. cbn [bind].
    rewrite IH; [reflexivity|assumption|].
    rewrite !app_length, block_length in Hf. lia.
Qed.

Theorem reads_any_wellformed_stream bs fs :
  wf_stream bs fs -> Forall (fun f => c_data f <> []) fs -> list_files bs = Ok fs.
Proof. intros H Hne. unfold list_files. eapply list_files_fuel_wf; eauto. Qed.

(* ---- the writer's output is a well-formed stream ---- *)

Lemma gap_repeat b n : gap_byte b -> gap_bytes (repeat b n).
Proof. intros Hb. induction n; constructor; assumption. Qed.

Lemma gap_blank_leader : gap_bytes (blank ++ leader).
Proof. apply Forall_app. split; apply gap_repeat; [now left | now right]. Qed.

Lemma data_blocks_wf : forall n d fuel, (length d <= n)%nat -> (n < fuel)%nat ->
  wf_data (data_blocks fuel d ++ eof_block) d.
Proof.
  induction n as [|n IH]; intros d fuel Hd Hf.
  - destruct d; [|cbn in Hd; lia]. destruct fuel; [lia|]. cbn [data_blocks app].
    apply (wf_eof []). constructor.
  - destruct fuel as [|fuel]; [lia|]. cbn [data_blocks]. destruct d as [|x d'] eqn:Ed.
    + cbn [app]. apply (wf_eof []). constructor.
    + rewrite <- Ed in *. assert (Hne : d <> []) by (subst; discriminate).
      destruct (Nat.ltb_spec (length d) 255) as [Hlt|Hge].
      * assert (W : wf_data ([] ++ block 1 d ++ eof_block) (d ++ [])).
        { apply (wf_blk [] d eof_block []); [constructor|assumption|lia|apply (wf_eof []); constructor]. }
        cbn [app] in W. rewrite app_nil_r in W. exact W.
      * rewrite <- app_assoc.
        assert (W : wf_data ([] ++ block 1 (firstn 255 d) ++ data_blocks fuel (skipn 255 d) ++ eof_block)
                            (firstn 255 d ++ skipn 255 d)).
        { apply (wf_blk [] (firstn 255 d)); [constructor| |rewrite firstn_length; lia|].
          - intro E. apply (f_equal (@length _)) in E. rewrite firstn_length in E. cbn [length] in E. lia.
          - apply (IH (skipn 255 d)); [rewrite skipn_length; lia|lia]. }
        cbn [app] in W. rewrite firstn_skipn in W. exact W.
Qed.

Lemma wf_data_gap_prefix g s d : gap_bytes g -> wf_data s d -> wf_data (g ++ s) d.
Proof.
  intros Hg Hs. destruct Hs as [g' Hg' | g' pl s d Hg' Hne Hl Hs].
  - rewrite app_assoc. apply wf_eof. apply Forall_app. now split.
  - rewrite app_assoc. apply wf_blk; try assumption. apply Forall_app. now split.
Qed.

Definition valid_cfile (f : cfile) : Prop :=
  forallb (fun b => b <? 128) (c_name f) = true /\ c_load f < 65536 /\ c_exec f < 65536.

Lemma name8_ascii : forall k n, forallb (fun b => b <? 128) n = true ->
  forallb (fun b => b <? 128) (name8 k n) = true.
Proof.
  induction k as [|k IH]; intros n Hn; [reflexivity|].
  destruct n as [|c r]; cbn [name8 forallb].
  - rewrite IH by reflexivity. reflexivity.
  - cbn [forallb] in Hn. apply andb_true_iff in Hn as [H1 H2]. now rewrite H1, IH.
Qed.

Lemma write_wf fs : Forall valid_cfile fs -> wf_stream (write fs) (map norm fs).
Proof.
  induction 1 as [|f fs (Ha & Hl & He) Hfs IH].
  - apply (wf_end []). constructor.
  - unfold write. cbn [map concat]. fold (write fs). unfold add_file.
    repeat rewrite <- app_assoc.
    replace (blank ++ leader ++ block 0 (header_payload f) ++ blank ++ leader ++
             data_blocks (S (length (c_data f))) (c_data f) ++ eof_block ++ write fs)
      with ((blank ++ leader) ++ block 0 (gen_header (norm f) 0) ++
            ((blank ++ leader) ++ data_blocks (S (length (c_data f))) (c_data f) ++ eof_block) ++ write fs)
      by (repeat rewrite <- app_assoc; reflexivity).
    apply wf_file.
    + apply gap_blank_leader.
    + unfold wf_meta, norm. cbn [c_name c_load c_exec]. repeat split; try assumption.
      * apply name8_length.
      * now apply name8_ascii.
    + cbn [norm c_data]. apply wf_data_gap_prefix; [apply gap_blank_leader|].
      apply (data_blocks_wf (length (c_data f))); lia.
    + exact IH.
Qed.

Theorem roundtrip fs :
  Forall valid_cfile fs -> Forall (fun f => c_data f <> []) fs ->
  list_files (write fs) = Ok (map norm fs).
Proof.
  intros Hv Hne. apply reads_any_wellformed_stream.
  - now apply write_wf.
  - apply Forall_map. eapply Forall_impl; [|exact Hne]. intros f Hf. exact Hf.
Qed.

(* The unchanged tree: a file with EMPTY data, and every file after it, disappears from the listing
   (cassette.py read_file: `if not data: return None`; pinned by test_read_file_empty_when_no_data). *)
Definition kf_a : cfile := {| c_name := [65]; c_type := 2; c_dtype := 0; c_load := 3584; c_exec := 3584; c_data := [1;2;3] |}.
Definition kf_e : cfile := {| c_name := [69]; c_type := 2; c_dtype := 0; c_load := 0; c_exec := 0; c_data := [] |}.
Definition kf_c : cfile := {| c_name := [67]; c_type := 0; c_dtype := 255; c_load := 0; c_exec := 0; c_data := [7] |}.

Theorem roundtrip_empty_data_refuted :
  exists fs, Forall valid_cfile fs /\ list_files (write fs) = Ok (map norm (firstn 1 fs)) /\
             list_files (write fs) <> Ok (map norm fs).
Proof.
  exists [kf_a; kf_e; kf_c]. split; [|split].
  - repeat constructor.
  - vm_compute. reflexivity.
  - vm_compute. discriminate.
Qed.
