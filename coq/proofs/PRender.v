(* PRender.v — rendering lemmas: what bytes a value emits (hex()/hex_len()/get_binary_array).
   A value fitted to a 2- or 4-digit field (operands.fit_value, repair F26) emits exactly one or two
   bytes holding its two's complement; a string emits its characters; RMB emits zeros.
   Shared by C01, C05 and C12. *)
From V Require Import Base.
From V.model Require Import MText MValues MOperands MProgram.
From V.proofs Require Import PLayout PHex.
From Coq Require Import ZifyNat ZifyN ZifyBool.
Local Open Scope N_scope.
Ltac Zify.zify_post_hook ::= Z.div_mod_to_equations.

(* ---------- fit_value ---------- *)
(* the signed number a value stands for *)
Definition value_number (v : value) : Z := if v_negative v then (- Z.of_N (v_int v))%Z else Z.of_N (v_int v).

Lemma num_of_Z_fields z h n : num_of_Z z (Some h) MNone = Ok n ->
  n_int n = Z.to_N (Z.abs z) /\ n_neg n = (z <? 0)%Z /\ n_hint n = Some h.
Proof.
  unfold num_of_Z, num_of_int. intros H. destruct (negb _ && _); [discriminate|].
  assert (Hneg : ((z <? 0)%Z && negb (Z.to_N (Z.abs z) =? 0)) = (z <? 0)%Z).
  { destruct (z <? 0)%Z eqn:E; [|reflexivity]. apply Z.ltb_lt in E. cbn [andb].
    destruct (N.eqb_spec (Z.to_N (Z.abs z)) 0); [lia | reflexivity]. }
  unfold post_init, init_hint in H. cbn [is_ext_mode mode_eqb] in H. inversion H; subst; cbn; rewrite Hneg; auto.
Qed.

Lemma num_hex_hinted n h : n_hint n = Some h -> h <> 0 ->
  num_hex_len n = N.to_nat h /\
  num_hex n 0 = (if n_neg n && Nat.leb 4 (N.to_nat h)
                 then (if 65536 <? n_int n then None else Some (fmt_hex (N.to_nat h) (65536 - n_int n)))
                 else if n_neg n && (65536 <? n_int n) then None else Some (fmt_hex (N.to_nat h) (get_negative n))).
Proof.
  intros Hh Hne. unfold num_hex_len, num_hex. rewrite Hh. split; [reflexivity|].
  assert (E : (h =? 0) = false) by (now apply N.eqb_neq). rewrite E. cbn [negb andb Nat.eqb].
  assert (E2 : Nat.eqb (N.to_nat h) 0 = false) by (apply Nat.eqb_neq; lia). rewrite E2. reflexivity.
Qed.

(* one byte: the two's complement of the number modulo 256 *)
Theorem fit_value_2_emits v signed a : fit_value v 2 signed = Ok a ->
  (-128 <= value_number v <= 255)%Z /\ (signed = false -> (0 <= value_number v)%Z) /\
  emit_value a = Ok [Z.to_N (value_number v mod 256)].
Proof.
  unfold fit_value. fold (value_number v). set (z := value_number v). change (16 ^ Z.of_N 2)%Z with 256%Z.
  intros H. destruct (_ || _) eqn:Erange; [discriminate|]. apply orb_false_iff in Erange as [E1 E2].
  apply Z.leb_gt in E1. apply Z.ltb_ge in E2.
  apply bind_ok in H as [n [Hn H]]. inversion H; subst a.
  destruct (num_of_Z_fields _ _ _ Hn) as (Hi & Hneg & Hh).
  assert (Hlo : (-128 <= z)%Z /\ (signed = false -> (0 <= z)%Z)).
  { destruct signed; change (- (256 / 2))%Z with (-128)%Z in E2; split; try lia; intros; try discriminate; lia. }
  destruct Hlo as [Hlo Hlo2]. clear E2.
  split; [lia|]. split; [exact Hlo2|].
  destruct (num_hex_hinted n 2 Hh ltac:(discriminate)) as [Hlen Hhex].
  unfold emit_value, v_hex, v_hex_len. rewrite Hlen, Hhex. change (N.to_nat 2) with 2%nat. cbn [Nat.leb andb]. rewrite andb_false_r.
  change ((2 + 1) / 2)%nat with 1%nat. rewrite Hneg.
  destruct (z <? 0)%Z eqn:Ez.
  - apply Z.ltb_lt in Ez. cbn [andb]. assert (E3 : 65536 <? n_int n = false) by (apply N.ltb_ge; lia). rewrite E3.
    unfold get_negative. rewrite Hneg. cbn [negb].
    assert (E4 : n_int n <=? 128 = true) by (apply N.leb_le; lia). rewrite E4.
    rewrite fmt_hex_2 by lia. rewrite emit_pairs_2. f_equal. f_equal. lia.
  - apply Z.ltb_ge in Ez. cbn [andb]. unfold get_negative. rewrite Hneg. cbn [negb].
    rewrite fmt_hex_2 by lia. rewrite emit_pairs_2. f_equal. f_equal. lia.
Qed.

(* two bytes, high byte first: the two's complement of the number modulo 65536 *)
Theorem fit_value_4_emits v a : fit_value v 4 true = Ok a ->
  (-32768 <= value_number v <= 65535)%Z /\
  emit_value a = Ok [Z.to_N ((value_number v mod 65536) / 256); Z.to_N (value_number v mod 256)].
Proof.
  unfold fit_value. fold (value_number v). set (z := value_number v). change (16 ^ Z.of_N 4)%Z with 65536%Z.
  intros H. destruct (_ || _) eqn:Erange; [discriminate|]. apply orb_false_iff in Erange as [E1 E2].
  apply Z.leb_gt in E1. apply Z.ltb_ge in E2. change (- (65536 / 2))%Z with (-32768)%Z in E2.
  apply bind_ok in H as [n [Hn H]]. inversion H; subst a.
  destruct (num_of_Z_fields _ _ _ Hn) as (Hi & Hneg & Hh).
  split; [lia|].
  destruct (num_hex_hinted n 4 Hh ltac:(discriminate)) as [Hlen Hhex].
  unfold emit_value, v_hex, v_hex_len. rewrite Hlen, Hhex. change (N.to_nat 4) with 4%nat. cbn [Nat.leb]. rewrite andb_true_r.
  change ((4 + 1) / 2)%nat with 2%nat. rewrite Hneg.
  destruct (z <? 0)%Z eqn:Ez.
  - apply Z.ltb_lt in Ez. assert (E3 : 65536 <? n_int n = false) by (apply N.ltb_ge; lia). rewrite E3.
    rewrite fmt_hex_4 by lia. rewrite emit_pairs_4. f_equal. f_equal; [lia|]. f_equal. lia.
  - apply Z.ltb_ge in Ez. cbn [andb]. unfold get_negative. rewrite Hneg. cbn [negb].
    rewrite fmt_hex_4 by lia. rewrite emit_pairs_4. f_equal. f_equal; [lia|]. f_equal. lia.
Qed.

(* ---------- strings and zero fill ---------- *)
Lemma emit_pairs_chars : forall s, Forall (fun c => c < 256) s ->
  emit_pairs (length s) (concat (map (fmt_hex 2) s)) = Ok s.
Proof.
  induction s as [|c s IH]; intros H; [reflexivity|]. inversion H as [|? ? H2 Hs]; subst.
  cbn [map concat length]. rewrite fmt_hex_2 by assumption. cbn [app emit_pairs]. rewrite (IH Hs). cbn [bind].
  f_equal. f_equal. lia.
Qed.

(* every character below 256 - control characters included (false upstream below $10: repair F50) *)
Theorem string_emits_its_characters s : Forall (fun c => c < 256) s -> emit_value (VStr s) = Ok s.
Proof.
  intros H. unfold emit_value, v_hex, v_hex_len.
  assert (L : length (concat (map (fmt_hex 2) s)) = (2 * length s)%nat).
  { clear -H. induction s as [|c s IH]; [reflexivity|]. inversion H as [|? ? H2 Hs]; subst. cbn [map concat]. rewrite app_length, (IH Hs). rewrite fmt_hex_2 by assumption. cbn [length]. lia. }
  rewrite L. replace ((2 * length s + 1) / 2)%nat with (length s) by lia.
  now apply emit_pairs_chars.
Qed.

Lemma emit_pairs_zeros : forall n, emit_pairs n (repeat 0 (2 * n)) = Ok (repeat 0 n).
Proof.
  induction n as [|n IH]; [reflexivity|]. replace (2 * S n)%nat with (S (S (2 * n))) by lia.
  cbn [repeat emit_pairs]. rewrite IH. reflexivity.
Qed.
