(* PC01src.v — C01 from the SOURCE LINE: a statement line in any layout (label or none, any white space, any comment)
   whose operand is a numeric literal in any decimal or $hex spelling, with the prefixes # < > and the brackets [ ],
   parses, resolves and - when translate accepts it - emits bytes that the datasheet decoder reads back as the
   mnemonic's instruction in the addressing mode written, with the operand value written (the positional value of
   the digits).  Composition of PC18.parse_line_fields, PC01text and the class-level theorems of PC12. *)
From V Require Import Base.
From V.spec Require Import Spec6809.
From V.model Require Import MText MValues MOperands MProgram.
From V.proofs Require Import PRender PC12 PC18 PC01text PC01acc.
From V.gen Require Tables.
From Coq Require Import ZifyNat ZifyN ZifyBool.
Local Open Scope N_scope.
Ltac Zify.zify_post_hook ::= Z.div_mod_to_equations.

Definition stmt_of (f : line_fields) (i : irow) (o : operand) : stmt := mk_stmt (lf_label f) i o (lf_ops f).

Lemma vn_number n : n_neg n = false -> value_number (VNum n) = Z.of_N (n_int n).
Proof. intros H. unfold value_number. cbn [v_negative v_int]. now rewrite H. Qed.

Lemma parse_ok f i o : well_formed_fields f -> find_instr (upper_t (lf_mn f)) Tables.instructions = Some i ->
  Tables.is_string_define i = false -> create_operand (lf_ops f) i = Ok o ->
  parse_line (line_of f) = Ok (Some (stmt_of f i o)).
Proof. intros Hf Hi Hsd Ho. rewrite (parse_line_fields f i Hf Hi Hsd), Ho. reflexivity. Qed.

Section Source.
Variables (f : line_fields) (i : irow) (l : literal) (tb : symtab).
Hypothesis Hf : well_formed_fields f.
Hypothesis Hi : find_instr (upper_t (lf_mn f)) Tables.instructions = Some i.
Hypothesis Hrow : plain_row i.
Hypothesis Hok : row_ok i = true.
Hypothesis Hl : lit_ok l.

Let Hp : Tables.is_pseudo i = false := proj1 Hrow.
Let Hs : Tables.is_special i = false := proj1 (proj2 Hrow).
Let Hsd : Tables.is_string_define i = false := proj2 (proj2 (proj2 Hrow)).

(* MN #lit *)
Theorem source_immediate : lf_ops f = 35 :: lit_text l ->
  exists n, parse_line (line_of f) = Ok (Some (stmt_of f i (OImmediate (VNum n)))) /\
    resolve_operand (OImmediate (VNum n)) i tb = Ok (OImmediate (VNum n)) /\
    (forall opc, Tables.imm i = Some opc -> (Z.of_N (lit_value l) < 16 ^ Z.of_N (imm_digits i))%Z ->
       exists p, translate_operand (OImmediate (VNum n)) i = Ok p) /\
    forall p, translate_operand (OImmediate (VNum n)) i = Ok p ->
      exists bs, final_bytes p = Ok bs /\ N.of_nat (length bs) = cp_size p /\
        (lit_value l <= 255 /\ decode bs = Some ({| i_mnem := canon (mnem i); i_op := OImm8 (lit_value l) |}, []) \/
         decode bs = Some ({| i_mnem := canon (mnem i); i_op := OImm16 (lit_value l) |}, [])).
Proof.
  intros Hops. destruct (immediate_text i l Hrow Hl) as (n & Hc & Hv & Hneg). pose proof (lit_value_16bit l Hl) as H16.
  exists n. split; [|split; [reflexivity|split]].
  - apply parse_ok; try assumption. now rewrite Hops.
  - intros opc Hm Hfit. apply (immediate_accepted i n Hok Hp Hneg ltac:(now rewrite Hv) opc Hs Hm). now rewrite Hv.
  - intros p Ht. destruct (immediate_decodes i p (VNum n) Hok Hp Hs eq_refl Ht) as (bs & Hb & Hlen & Hd).
    exists bs. split; [exact Hb|]. split; [exact Hlen|]. rewrite (vn_number n Hneg), Hv in Hd.
    destruct Hd as [[Hr Hd] | [Hr Hd]]; [left | right].
    + split; [lia|]. assert (E : Z.to_N (Z.of_N (lit_value l) mod 256) = lit_value l) by lia. rewrite E in Hd. exact Hd.
    + assert (E : Z.to_N (Z.of_N (lit_value l) mod 65536) = lit_value l) by lia. rewrite E in Hd. exact Hd.
Qed.

(* MN lit : direct or extended, which the CPU cannot tell apart under the assumed direct page 0 *)
Theorem source_address : lf_ops f = lit_text l ->
  exists n o, parse_line (line_of f) = Ok (Some (stmt_of f i (OUnknown (VNum n)))) /\
    resolve_operand (OUnknown (VNum n)) i tb = Ok o /\
    (forall od oe, Tables.dir i = Some od -> Tables.ext i = Some oe -> exists p, translate_operand o i = Ok p) /\
    forall p, translate_operand o i = Ok p ->
      exists bs, final_bytes p = Ok bs /\ N.of_nat (length bs) = cp_size p /\
        (lit_value l <= 255 /\ decode bs = Some ({| i_mnem := canon (mnem i); i_op := ODir (lit_value l) |}, []) \/
         decode bs = Some ({| i_mnem := canon (mnem i); i_op := OExt (lit_value l) |}, [])).
Proof.
  intros Hops. destruct (address_text i l tb Hrow Hl) as (n & Hc & Hv & Hneg & Hres). pose proof (lit_value_16bit l Hl) as H16. exists n.
  destruct Hres as [[Hres Hsmall] | Hres]; [exists (ODirect (VNum n)) | exists (OExtended (VNum n))]; (split; [apply parse_ok; try assumption; now rewrite Hops|]); (split; [exact Hres|]);
    (split; [intros od oe Hd He; first [apply (direct_accepted i n Hok Hp Hneg ltac:(now rewrite Hv) od Hd); lia | apply (extended_accepted i n Hok Hp Hneg ltac:(now rewrite Hv) oe He)]|]); intros p Ht.
  - destruct (direct_decodes i p (VNum n) Hok Hp eq_refl Ht) as (Hr & bs & Hb & Hlen & Hd). exists bs. split; [exact Hb|]. split; [exact Hlen|].
    rewrite (vn_number n Hneg), Hv in Hd, Hr. left. split; [lia|]. now rewrite N2Z.id in Hd.
  - destruct (extended_decodes i p (VNum n) Hok Hp eq_refl Ht) as (Hr & bs & Hb & Hlen & Hd). exists bs. split; [exact Hb|]. split; [exact Hlen|].
    rewrite (vn_number n Hneg), Hv in Hd, Hr. right. assert (E : Z.to_N (Z.of_N (lit_value l) mod 65536) = lit_value l) by lia. rewrite E in Hd. exact Hd.
Qed.

(* MN <lit : direct *)
Theorem source_forced_direct : lf_ops f = 60 :: lit_text l ->
  exists n, parse_line (line_of f) = Ok (Some (stmt_of f i (OUnknown (VNum n)))) /\
    resolve_operand (OUnknown (VNum n)) i tb = Ok (ODirect (VNum n)) /\
    (forall opc, Tables.dir i = Some opc -> lit_value l <= 255 -> exists p, translate_operand (ODirect (VNum n)) i = Ok p) /\
    forall p, translate_operand (ODirect (VNum n)) i = Ok p ->
      lit_value l <= 255 /\
      exists bs, final_bytes p = Ok bs /\ N.of_nat (length bs) = cp_size p /\
        decode bs = Some ({| i_mnem := canon (mnem i); i_op := ODir (lit_value l) |}, []).
Proof.
  intros Hops. destruct (forced_direct_text i l tb Hrow Hl) as (n & Hc & Hv & Hneg & Hres). pose proof (lit_value_16bit l Hl) as H16. exists n.
  split; [apply parse_ok; try assumption; now rewrite Hops|]. split; [exact Hres|].
  split; [intros opc Hm Hfit; apply (direct_accepted i n Hok Hp Hneg ltac:(now rewrite Hv) opc Hm); now rewrite Hv|]. intros p Ht.
  destruct (direct_decodes i p (VNum n) Hok Hp eq_refl Ht) as (Hr & bs & Hb & Hlen & Hd).
  rewrite (vn_number n Hneg), Hv in Hd, Hr. split; [lia|]. exists bs. split; [exact Hb|]. split; [exact Hlen|]. now rewrite N2Z.id in Hd.
Qed.

(* MN >lit : extended *)
Theorem source_forced_extended : lf_ops f = 62 :: lit_text l ->
  exists n, parse_line (line_of f) = Ok (Some (stmt_of f i (OUnknown (VNum n)))) /\
    resolve_operand (OUnknown (VNum n)) i tb = Ok (OExtended (VNum n)) /\
    (forall opc, Tables.ext i = Some opc -> exists p, translate_operand (OExtended (VNum n)) i = Ok p) /\
    forall p, translate_operand (OExtended (VNum n)) i = Ok p ->
      exists bs, final_bytes p = Ok bs /\ N.of_nat (length bs) = cp_size p /\
        decode bs = Some ({| i_mnem := canon (mnem i); i_op := OExt (lit_value l) |}, []).
Proof.
  intros Hops. destruct (forced_extended_text i l tb Hrow Hl) as (n & Hc & Hv & Hneg & Hres). pose proof (lit_value_16bit l Hl) as H16. exists n.
  split; [apply parse_ok; try assumption; now rewrite Hops|]. split; [exact Hres|].
  split; [intros opc Hm; apply (extended_accepted i n Hok Hp Hneg ltac:(now rewrite Hv) opc Hm)|]. intros p Ht.
  destruct (extended_decodes i p (VNum n) Hok Hp eq_refl Ht) as (Hr & bs & Hb & Hlen & Hd).
  rewrite (vn_number n Hneg), Hv in Hd, Hr. exists bs. split; [exact Hb|]. split; [exact Hlen|].
  assert (E : Z.to_N (Z.of_N (lit_value l) mod 65536) = lit_value l) by lia. rewrite E in Hd. exact Hd.
Qed.

(* MN [lit] : extended indirect *)
Theorem source_indirect : lf_ops f = 91 :: lit_text l ++ [93] ->
  exists n, let o := OExtIdx (lf_ops f) (VNum n) (LVal VNone) None in
    parse_line (line_of f) = Ok (Some (stmt_of f i o)) /\
    resolve_operand o i tb = Ok o /\
    (forall opc, Tables.ind i = Some opc -> exists p, translate_operand o i = Ok p) /\
    forall p, translate_operand o i = Ok p ->
      exists bs, final_bytes p = Ok bs /\ N.of_nat (length bs) = cp_size p /\
        decode bs = Some ({| i_mnem := canon (mnem i); i_op := OIdx (IExtInd (lit_value l)) |}, []).
Proof.
  intros Hops. destruct (indirect_text i l tb Hrow Hl) as (n & Hc & Hv & Hneg & Hres). pose proof (lit_value_16bit l Hl) as H16. exists n. rewrite Hops.
  split; [apply parse_ok; try assumption; now rewrite Hops|]. split; [exact Hres|].
  split; [intros opc Hm; apply (indirect_accepted i n Hok Hp Hneg ltac:(now rewrite Hv) opc _ _ _ Hm)|]. intros p Ht.
  destruct (extended_indirect_decodes i p _ (VNum n) _ _ Hok Hp eq_refl Ht) as (Hr & bs & Hb & Hlen & Hd).
  rewrite (vn_number n Hneg), Hv in Hd, Hr. exists bs. split; [exact Hb|]. split; [exact Hlen|].
  assert (E : Z.to_N (Z.of_N (lit_value l) mod 65536) = lit_value l) by lia. rewrite E in Hd. exact Hd.
Qed.
(* MN lit,R : a constant offset from X, Y, U or S *)
Lemma reg_no_comma nm rg : In (nm, rg) reg_names -> ~ In 44 nm.
Proof. intros H. repeat (destruct H as [H | H]; [inversion H; subst; cbn; intuition discriminate|]). destruct H. Qed.

Theorem source_indexed_offset nm rg : In (nm, rg) reg_names -> lf_ops f = lit_text l ++ 44 :: nm -> 16 <= lit_value l <= 32768 ->
  exists n, let o := OIndexed (lf_ops f) (LStr (lit_text l)) nm in let o' := OIndexed (lf_ops f) (LVal (VNum n)) nm in
    parse_line (line_of f) = Ok (Some (stmt_of f i o)) /\
    resolve_operand o i tb = Ok o' /\
    forall p, translate_operand o' i = Ok p ->
      exists bs, final_bytes p = Ok bs /\ N.of_nat (length bs) = cp_size p /\
        (decode bs = Some ({| i_mnem := canon (mnem i); i_op := OIdx (IOff8 rg (Z.of_N (lit_value l)) false) |}, []) /\ lit_value l <= 127 \/
         exists z, decode bs = Some ({| i_mnem := canon (mnem i); i_op := OIdx (IOff16 rg z false) |}, []) /\
                   (z mod 65536 = Z.of_N (lit_value l) mod 65536)%Z).
Proof.
  intros Hin Hops Hrange.
  destruct (indexed_text i l nm tb Hrow Hl (reg_no_comma nm rg Hin) (lit_not_abd l Hl)) as (n & Hc & Hres & Hv & Hneg).
  exists n. cbv zeta. rewrite Hops. split; [apply parse_ok; try assumption; now rewrite Hops|]. split; [exact Hres|]. intros p Ht.
  cbn [translate_operand] in Ht.
  assert (Hnv : num_value n = Z.of_N (lit_value l)) by (unfold num_value; now rewrite Hneg, Hv).
  destruct (offset_decodes i p n nm rg false Hok Hp Hin ltac:(rewrite Hv; lia)
              ltac:(intros _; unfold is_4_bit; rewrite Hneg, Hv; apply negb_true_iff; apply N.leb_gt; lia) ltac:(rewrite Hv; lia) Ht)
    as (bs & Hb & Hlen & Hd).
  exists bs. split; [exact Hb|]. split; [exact Hlen|]. rewrite Hnv in Hd. destruct Hd as [[Hd Hr] | Hd]; [left; split; [exact Hd | lia] | right; exact Hd].
Qed.

Lemma find_instr_in m : forall tb0 i0, find_instr m tb0 = Some i0 -> In i0 tb0.
Proof.
  induction tb0 as [|x tb0 IH]; intros i0 H; cbn [find_instr] in H; [discriminate|].
  destruct (text_eqb (mnem x) m); [inversion H; now left | right; now apply IH].
Qed.

(* MN lit,R with 0 <= lit <= 15: no offset for 0, the 5-bit form otherwise; accepted whenever the mnemonic has an indexed mode *)
Theorem source_indexed_small nm rg opc : In (nm, rg) reg_names -> lf_ops f = lit_text l ++ 44 :: nm -> lit_value l <= 15 ->
  Tables.ind i = Some opc ->
  exists n, let o := OIndexed (lf_ops f) (LStr (lit_text l)) nm in let o' := OIndexed (lf_ops f) (LVal (VNum n)) nm in
    parse_line (line_of f) = Ok (Some (stmt_of f i o)) /\
    resolve_operand o i tb = Ok o' /\
    exists p bs, translate_operand o' i = Ok p /\ final_bytes p = Ok bs /\ N.of_nat (length bs) = cp_size p /\
      decode bs = Some ({| i_mnem := canon (mnem i);
                           i_op := OIdx (if lit_value l =? 0 then IZero rg false else IOff5 rg (Z.of_N (lit_value l))) |}, []).
Proof.
  intros Hin Hops Hsmall Hind.
  destruct (indexed_text i l nm tb Hrow Hl (reg_no_comma nm rg Hin) (lit_not_abd l Hl)) as (n & Hc & Hres & Hv & Hneg).
  exists n. cbv zeta. rewrite Hops. split; [apply parse_ok; try assumption; now rewrite Hops|]. split; [exact Hres|].
  pose proof (off5_ok (n_hint n) (n_mode n)) as Hall. rewrite forallb_forall in Hall.
  specialize (Hall i (find_instr_in _ _ _ Hi)). rewrite Hp in Hall. cbn [orb] in Hall. unfold off5_row_ok in Hall. rewrite Hind in Hall.
  rewrite forallb_forall in Hall. specialize (Hall (nm, rg) Hin). cbv beta iota in Hall. rewrite forallb_forall in Hall.
  assert (Hmem : In (false, lit_value l) off5_values).
  { unfold off5_values. apply in_or_app. left. apply in_map_iff. exists (N.to_nat (lit_value l)). split; [f_equal; lia|]. apply in_seq. lia. }
  specialize (Hall _ Hmem). cbv beta iota zeta in Hall.
  assert (En : {| n_int := lit_value l; n_neg := false; n_hint := n_hint n; n_mode := n_mode n |} = n).
  { destruct n as [a b c d]. cbn [n_int n_neg n_hint n_mode] in *. now subst. }
  rewrite En in Hall. destruct (idx_pkg_ok_spec _ _ _ Hall) as (p & bs & Hr & Hb & Hlen & Hd).
  exists p, bs. split; [cbn [translate_operand]; exact Hr|]. split; [exact Hb|]. split; [exact Hlen|]. exact Hd.
Qed.
End Source.
