(* PC11origin.v — the origin of EVERY accepted program is a 16-bit address whose header word is that address.
   Program.origin is the operand Value of the ORG statement that precedes the first byte (repair F45).  That Value
   is a non-negative NumericValue below 65536 whose size hint is absent, 4, or 2 with a value below 256 - whatever
   the operand's spelling (decimal, $hex of any length, %binary, 'c, an EQU symbol, a constant expression) - so that
   high_byte()*256 + low_byte(), the word assembler.py writes into the cassette header and the disk preamble, is the
   address itself.  This closes the hypothesis of C11_origin_word_of_numeric for the assembler's own output. *)
From V Require Import Base.
From V.model Require Import MText MValues MOperands MProgram MCli.
From V.proofs Require Import PLayout PFrames PContig PC02 PC05 PC05list PC01text PC01acc PCli.
From V.gen Require Tables.
From Coq Require Import ZifyNat ZifyN ZifyBool.
Local Open Scope N_scope.

(* ---------- the shape of a good origin value ---------- *)
Definition hgood (n : num) : Prop :=
  n_int n < 65536 /\ (n_hint n = None \/ n_hint n = Some 4 \/ (n_hint n = Some 2 /\ n_int n < 256)).
Definition good_origin (v : value) : Prop := exists n, v = VNum n /\ n_neg n = false /\ hgood n.
(* a value that, IF it is a non-negative number, is a good origin *)
Definition pgood (v : value) : Prop := match v with VNum n => n_neg n = false -> hgood n | _ => True end.

Lemma charlit_bound c : is_charlit c = true -> c < 128.
Proof. unfold is_charlit, is_alpha, is_upper, is_lower, is_digit, in_range. cbn [existsb]. lia. Qed.

Lemma parse_base2_bound : forall ds acc, forallb (fun c => (c =? 48) || (c =? 49)) ds = true ->
  parse_base 2 ds acc < (acc + 1) * 2 ^ N.of_nat (length ds).
Proof.
  induction ds as [|d ds IH]; intros acc H; cbn [parse_base length].
  - change (2 ^ N.of_nat 0) with 1. lia.
  - cbn [forallb] in H. apply andb_true_iff in H as [Hd Hds].
    assert (Hv : digit_val d <= 1) by (unfold digit_val, is_digit, in_range; repeat match goal with |- context [if ?b then _ else _] => destruct b eqn:? end; lia).
    specialize (IH (acc * 2 + digit_val d) Hds). rewrite Nat2N.inj_succ, N.pow_succ_r'.
    set (P := 2 ^ N.of_nat (length ds)) in *. eapply N.lt_le_trans; [exact IH|].
    rewrite (N.mul_assoc (acc + 1) 2 P). apply N.mul_le_mono_r. lia.
Qed.

Lemma post_init_hgood v h m h' m' : v < 65536 -> (h = None \/ h = Some 4) -> post_init v h m = (h', m') ->
  h' = None \/ h' = Some 4 \/ (h' = Some 2 /\ v < 256).
Proof.
  intros Hv Hh. unfold post_init. destruct Hh as [-> | ->].
  - destruct (mode_eqb m MExplExtended); [intros E; inversion E; auto|].
    destruct (N.ltb_spec v 256); cbn [andb]; [destruct (negb _)|]; intros E; inversion E; auto.
  - intros E; inversion E; auto.
Qed.

Lemma init_hint_none m : init_hint None m = None \/ init_hint None m = Some 4.
Proof. unfold init_hint. destruct (is_ext_mode m); auto. Qed.

Lemma num_of_text_hgood t m n : num_of_text t None m = Ok n -> n_neg n = false -> hgood n.
Proof.
  unfold num_of_text. destruct t as [|c0 ds]; [discriminate|]. pose proof (init_hint_none m) as Hh.
  repeat match goal with
  | |- (if ?b then _ else _) = Ok _ -> _ => destruct b eqn:?
  | |- (let '(_, _) := ?y in _) = Ok _ -> _ => destruct y eqn:?
  end; try discriminate; intros E; inversion E; subst; cbn [n_neg n_int n_hint]; intros Hneg; try discriminate; unfold hgood; cbn [n_int n_hint].
  - (* 'c *)
    repeat match goal with H : _ && _ = true |- _ => apply andb_true_iff in H as [H ?] end.
    match goal with H : is_charlit _ = true |- _ => pose proof (charlit_bound _ H) as Hc end.
    assert (X : hd 0 ds < 65536 /\ hd 0 ds < 256) by (clear -Hc; split; eapply N.lt_trans; try exact Hc; reflexivity).
    destruct X as [X1 X2]. split; [exact X1|]. destruct Hh as [-> | ->]; auto.
  - (* %bits, 8 of them read as a byte *)
    repeat match goal with H : _ && _ = true |- _ => apply andb_true_iff in H as [H ?] end.
    match goal with H : all_c _ ds = true |- _ => pose proof (parse_base2_bound ds 0 H) as Hb end.
    match goal with H : Nat.eqb (length ds) 8 = true |- _ => apply Nat.eqb_eq in H; rewrite H in Hb end.
    change (2 ^ N.of_nat 8) with 256 in Hb. split; [lia|]. right. right. split; [reflexivity | lia].
  - (* %bits, 8 or 16 *)
    repeat match goal with H : _ && _ = true |- _ => apply andb_true_iff in H as [H ?] end.
    match goal with H : all_c _ ds = true |- _ => pose proof (parse_base2_bound ds 0 H) as Hb end.
    match goal with H : negb _ && negb _ = false |- _ => apply andb_false_iff in H as [H | H]; apply negb_false_iff in H; apply Nat.eqb_eq in H; rewrite H in Hb end.
    + change (2 ^ N.of_nat 8) with 256 in Hb. split; [lia|]. destruct Hh as [-> | ->]; auto.
    + change (2 ^ N.of_nat 16) with 65536 in Hb. split; [lia|]. destruct Hh as [-> | ->]; auto.
  - (* $hex *)
    repeat match goal with H : _ && _ = true |- _ => apply andb_true_iff in H as [H ?] end.
    match goal with H : all_c is_hexdigit ds = true |- _ => pose proof (parse_base16_bound ds 0 H) as Hb end.
    match goal with H : Nat.ltb 4 (length ds) = false |- _ => apply Nat.ltb_ge in H; rename H into Hlen end.
    assert (H16 : 16 ^ N.of_nat (length ds) <= 16 ^ 4) by (apply N.pow_le_mono_r; lia). change (16 ^ 4) with 65536 in H16.
    match goal with H : (if ?b then _ else _) = (_, _) |- _ => destruct b eqn:Ec; inversion H; subst end.
    + repeat match goal with H : _ && _ = true |- _ => apply andb_true_iff in H as [H ?] end.
      match goal with H : Nat.eqb (length ds) 2 = true |- _ => apply Nat.eqb_eq in H; rewrite H in Hb end.
      change (16 ^ N.of_nat 2) with 256 in Hb. split; [lia|]. right. right. split; [reflexivity | lia].
    + split; [lia|]. destruct Hh as [-> | ->]; auto.
  - (* decimal *)
    match goal with H : (65535 <? _) = false |- _ => apply N.ltb_ge in H; rename H into Hle end.
    change (parse_base 10 (c0 :: ds) 0) with (parse_base 10 ds (digit_val c0)) in *.
    split; [lia|]. match goal with H : post_init _ _ _ = _ |- _ => eapply post_init_hgood in H; [exact H | lia | exact Hh] end.
  - (* -0 *)
    apply negb_false_iff in Hneg. apply N.eqb_eq in Hneg. rewrite Hneg. split; [lia|]. destruct Hh as [-> | ->]; auto.
Qed.

Lemma num_of_int_hgood mag n : num_of_int false mag None MNone = Ok n -> n_neg n = false /\ hgood n.
Proof.
  unfold num_of_int. cbn [negb andb]. destruct (65535 <? mag) eqn:E; [discriminate|]. apply N.ltb_ge in E.
  destruct (post_init _ _ _) as [h m'] eqn:Hp. intros H. inversion H; subst. cbn. split; [reflexivity|]. unfold hgood. cbn [n_int n_hint].
  split; [lia|]. eapply post_init_hgood in Hp; [exact Hp | lia | now left].
Qed.

Lemma num_of_result_hgood z m n : num_of_result z m = Ok n -> n_neg n = false -> hgood n.
Proof.
  unfold num_of_result. destruct (z <? 0)%Z.
  - destruct (32768 <? _); [discriminate|]. intros H. inversion H; subst. cbn. discriminate.
  - destruct (65535 <? Z.to_N z) eqn:E; [discriminate|]. apply N.ltb_ge in E. destruct (post_init _ _ _) as [h m'] eqn:Hp.
    intros H _. inversion H; subst. unfold hgood. cbn [n_int n_hint]. split; [lia|].
    eapply post_init_hgood in Hp; [exact Hp | lia | apply init_hint_none].
Qed.

(* ---------- Value.create_from_str for a row that is neither a string definition nor 16-bit ---------- *)
Lemma value_of_text_pgood t de v : value_of_text t false false de = Ok v -> pgood v.
Proof.
  unfold value_of_text. destruct t as [|c0 rest]; [discriminate|].
  destruct (if c0 =? 60 then _ else _) as [m t'].
  unfold ok_or, expr_of_text, lr_of_text.
  destruct (split_expr t') as [[[l op] r]|].
  - destruct (atom_of_text l) as [lv| | | |]; cbn [bind].
    + destruct (atom_of_text r) as [rv| | | |]; cbn [bind]; [intros H; inversion H; subst; exact I| | | |].
      all: destruct (split_on 44 t') as [|? [|? [|? ?]]]; try (intros H; inversion H; subst; exact I).
      all: destruct (num_of_text t' None m) as [n| | | |] eqn:En; cbn [bind]; try (intros H; inversion H; subst; intros Hneg; exact (num_of_text_hgood _ _ _ En Hneg)).
      all: destruct (_ && _); intros H; inversion H; subst; exact I.
    + all: destruct (split_on 44 t') as [|? [|? [|? ?]]]; try (intros H; inversion H; subst; exact I).
      all: destruct (num_of_text t' None m) as [n| | | |] eqn:En; cbn [bind]; try (intros H; inversion H; subst; intros Hneg; exact (num_of_text_hgood _ _ _ En Hneg)).
      all: destruct (_ && _); intros H; inversion H; subst; exact I.
    + all: destruct (split_on 44 t') as [|? [|? [|? ?]]]; try (intros H; inversion H; subst; exact I).
      all: destruct (num_of_text t' None m) as [n| | | |] eqn:En; cbn [bind]; try (intros H; inversion H; subst; intros Hneg; exact (num_of_text_hgood _ _ _ En Hneg)).
      all: destruct (_ && _); intros H; inversion H; subst; exact I.
    + all: destruct (split_on 44 t') as [|? [|? [|? ?]]]; try (intros H; inversion H; subst; exact I).
      all: destruct (num_of_text t' None m) as [n| | | |] eqn:En; cbn [bind]; try (intros H; inversion H; subst; intros Hneg; exact (num_of_text_hgood _ _ _ En Hneg)).
      all: destruct (_ && _); intros H; inversion H; subst; exact I.
    + all: destruct (split_on 44 t') as [|? [|? [|? ?]]]; try (intros H; inversion H; subst; exact I).
      all: destruct (num_of_text t' None m) as [n| | | |] eqn:En; cbn [bind]; try (intros H; inversion H; subst; intros Hneg; exact (num_of_text_hgood _ _ _ En Hneg)).
      all: destruct (_ && _); intros H; inversion H; subst; exact I.
  - destruct (split_on 44 t') as [|? [|? [|? ?]]]; try (intros H; inversion H; subst; exact I).
    all: destruct (num_of_text t' None m) as [n| | | |] eqn:En; cbn [bind]; try (intros H; inversion H; subst; intros Hneg; exact (num_of_text_hgood _ _ _ En Hneg)).
    all: destruct (_ && _); intros H; inversion H; subst; exact I.
Qed.

Lemma num_of_int_pgood neg mag n : num_of_int neg mag None MNone = Ok n -> n_neg n = false -> hgood n.
Proof.
  unfold num_of_int. destruct (negb neg && _) eqn:Ec; [discriminate|].
  destruct (post_init _ _ _) as [h m'] eqn:Hp. intros H. inversion H; subst. cbn [n_neg n_int n_hint]. intros Hn. unfold hgood. cbn [n_int n_hint].
  assert (Hm : mag < 65536).
  { destruct neg; cbn [negb andb] in *.
    - apply negb_false_iff in Hn. apply N.eqb_eq in Hn. lia.
    - apply N.ltb_ge in Ec. lia. }
  split; [exact Hm|]. eapply post_init_hgood in Hp; [exact Hp | exact Hm | now left].
Qed.

(* Value.resolve of a symbol or an expression: a number it yields is good when it is not negative *)
Lemma resolve_value_pgood v tb v' : (v_is_symbol v || v_is_expr v) = true -> resolve_value v tb = Ok v' -> pgood v'.
Proof.
  intros Hk. destruct v; try discriminate; cbn [resolve_value].
  - unfold resolve_symbol. intros H. apply bind_ok in H as [sv [_ H]]. destruct sv; try (inversion H; subst; exact I).
    + apply bind_ok in H as [n' [Hn H]]. inversion H; subst. cbn [pgood]. exact (num_of_int_pgood _ _ _ Hn).
    + destruct addr; inversion H; subst; exact I.
  - unfold resolve_expr. intros H. apply bind_ok in H as [l' [_ H]]. apply bind_ok in H as [r' [_ H]].
    destruct l'; try discriminate; destruct r'; try discriminate; cbn [v_is_numeric andb v_is_address orb] in H;
      try (inversion H; subst; exact I).
    apply bind_ok in H as [z [_ H]]. apply bind_ok in H as [nr [Hn H]]. inversion H; subst. cbn [pgood]. exact (num_of_result_hgood _ _ _ Hn).
Qed.

(* ---------- what the table says about ORG ---------- *)
Definition org_row2_ok (i : irow) : bool :=
  if Tables.is_origin i then
    Tables.is_pseudo i && negb (Tables.is_multi_byte i) && negb (Tables.is_multi_word i) && negb (Tables.is_include i) &&
    negb (Tables.is_pseudo_define i) && negb (Tables.is_16_bit i) && negb (Tables.is_string_define i) &&
    text_eqb (mnem i) ORG_t
  else true.
Lemma org_rows2 : forallb org_row2_ok Tables.instructions = true.
Proof. vm_compute. reflexivity. Qed.
Lemma org_row2_of i : In i Tables.instructions -> org_row2_ok i = true.
Proof. intros H. pose proof org_rows2 as Hall. rewrite forallb_forall in Hall. now apply Hall. Qed.

Lemma org_facts i : In i Tables.instructions -> Tables.is_origin i = true ->
  Tables.is_pseudo i = true /\ Tables.is_multi_byte i = false /\ Tables.is_multi_word i = false /\ Tables.is_include i = false /\
  Tables.is_pseudo_define i = false /\ Tables.is_16_bit i = false /\ Tables.is_string_define i = false /\ mnem i = ORG_t.
Proof.
  intros Hin Ho. pose proof (org_row2_of i Hin) as H. unfold org_row2_ok in H. rewrite Ho in H.
  repeat (apply andb_true_iff in H as [H ?]).
  repeat match goal with Hx : negb _ = true |- _ => apply negb_true_iff in Hx end.
  repeat split; try assumption. now apply list_eqb_eq.
Qed.

(* ---------- the stages ---------- *)
(* parsed: the operand of an ORG statement is a pseudo operand whose value, if a non-negative number, is good *)
Definition porg (s : stmt) : Prop :=
  In (s_instr s) Tables.instructions /\
  (Tables.is_origin (s_instr s) = true -> exists str v, s_operand s = OPseudo str v /\ pgood v).
(* resolved: it is a good number *)
Definition rorg (s : stmt) : Prop :=
  In (s_instr s) Tables.instructions /\
  (Tables.is_origin (s_instr s) = true -> exists str v, s_operand s = OPseudo str v /\ good_origin v).
(* translated and later: the ORG statement's own address is a good origin *)
Definition gorg (s : stmt) : Prop := Tables.is_origin (s_instr s) = true -> good_origin (cp_addr (s_pkg s)).

Lemma create_operand_porg ops i o : In i Tables.instructions -> create_operand ops i = Ok o ->
  Tables.is_origin i = true -> exists str v, o = OPseudo str v /\ pgood v.
Proof.
  intros Hin H Ho. destruct (org_facts i Hin Ho) as (Hp & Hmb & Hmw & Hinc & Hpd & H16 & Hsd & Hm).
  unfold create_operand in H. rewrite Hp in H. unfold pseudo_operand in H. rewrite Hmb, Hmw, Hinc, Hpd, Hm in H. cbn [andb negb orb] in H.
  change (text_eqb ORG_t END_t) with false in H. cbn [andb orb] in H.
  apply bind_ok in H as [v [Hv H]]. inversion H; subst. exists ops, v. split; [reflexivity|].
  unfold create_value in Hv. rewrite Hsd, H16 in Hv. exact (value_of_text_pgood _ _ _ Hv).
Qed.

Lemma parse_line_porg line st : parse_line line = Ok (Some st) -> porg st.
Proof.
  unfold parse_line, porg. intros H.
  destruct (mem_c 10 _); [discriminate|]. destruct (all_c is_space line); [discriminate|].
  destruct (hd 0 (lstrip line) =? 59); [discriminate|].
  destruct (span is_labelch line) as [label r1]. destruct r1 as [|c1 r1']; [discriminate|].
  destruct (negb (is_space c1)); [discriminate|].
  destruct (span is_word _) as [mn r3]. destruct r3 as [|c2 r3']; [discriminate|].
  destruct (negb (is_space c2)); [discriminate|].
  destruct (find_instr (upper_t mn) Tables.instructions) as [j|] eqn:Ef; [|discriminate].
  apply PClean.find_instr_In in Ef.
  destruct (Tables.is_string_define j).
  - destruct (rstrip _) as [|d rest]; [discriminate|]. destruct (find_from d rest 1); [|discriminate].
    destruct (create_operand _ j) eqn:Ec; try discriminate. inversion H; subst. cbn [s_instr s_operand mk_stmt].
    split; [exact Ef | intros Ho; eapply create_operand_porg; eauto].
  - destruct (span is_opch _) as [ops rest]. apply bind_ok in H as [o [Ho H]]. inversion H; subst. cbn [s_instr s_operand mk_stmt].
    split; [exact Ef|]. intros Hor. destruct (create_operand ops j) eqn:Ec; try discriminate. cbn [as_parse_error] in Ho. inversion Ho; subst.
    eapply create_operand_porg; eauto.
Qed.

Lemma parse_lines_porg : forall lines ss, parse_lines lines = Ok ss -> Forall porg ss.
Proof.
  induction lines as [|l r IH]; intros ss H; cbn [parse_lines] in H; [inversion H; constructor|].
  apply bind_ok in H as [s [Hs H]]. apply bind_ok in H as [rest [Hr H]]. inversion H; subst.
  destruct s as [st|]; [constructor; [eapply parse_line_porg; eauto | now apply IH] | now apply IH].
Qed.

Lemma expand_list_porg rec fm chain :
  (forall c inner r, Forall porg inner -> rec c inner = Ok r -> Forall porg r) ->
  forall ss r, Forall porg ss -> expand_list rec fm chain ss = Ok r -> Forall porg r.
Proof.
  intros Hrec. induction ss as [|s ss IH]; intros r Hin H; cbn [expand_list] in H; [inversion H; constructor|].
  inversion Hin as [|? ? Hs Hss]; subst. destruct (_ && _).
  - destruct (existsb (text_eqb (s_opstr s)) chain); [discriminate|]. destruct (lookup_file (s_opstr s) fm) as [ls|]; [|discriminate].
    apply bind_ok in H as [inner [Hp H]]. apply bind_ok in H as [inner' [Hr H]]. apply bind_ok in H as [rest [Hrest H]].
    inversion H; subst. apply Forall_app. split; [eapply Hrec; [|exact Hr]; eapply parse_lines_porg; eauto | now apply IH].
  - apply bind_ok in H as [rest [Hrest H]]. inversion H; subst. constructor; [exact Hs | now apply IH].
Qed.

Lemma expand_porg fm : forall fuel chain ss r, Forall porg ss -> expand fuel fm chain ss = Ok r -> Forall porg r.
Proof.
  induction fuel as [|f IH]; intros chain ss r Hin H; cbn [expand] in H.
  - eapply expand_list_porg; [|exact Hin|exact H]. intros; discriminate.
  - eapply expand_list_porg; [|exact Hin|exact H]. intros c inner r0 Hi Hr. eapply IH; eauto.
Qed.

Lemma resolve_stmt_rorg tb s s' : porg s -> resolve_stmt tb s = Ok s' -> rorg s'.
Proof.
  intros [Hin Hp] H. unfold resolve_stmt in H. apply bind_ok in H as [o [Ho H]]. inversion H; subst. unfold rorg. cbn [s_instr s_operand].
  split; [exact Hin|]. intros Hor. destruct (Hp Hor) as (str & v & Eo & Hg). rewrite Eo in Ho.
  destruct (org_facts _ Hin Hor) as (_ & Hmb & Hmw & _ & _ & _ & _ & Hm).
  destruct (resolve_operand (OPseudo str v) (s_instr s) tb) as [o'| | | |] eqn:Er; try discriminate. cbn [as_translation_error] in Ho. inversion Ho; subst o'.
  cbn [resolve_operand] in Er. rewrite Hmb, Hmw, Hm in Er. cbn [orb] in Er. change (text_eqb ORG_t RMB_t) with false in Er.
  change (text_eqb ORG_t ORG_t) with true in Er. cbn [orb andb] in Er.
  apply bind_ok in Er as [v' [Hv' Er]].
  assert (Hg' : pgood v').
  { destruct (v_is_symbol v || v_is_expr v) eqn:Ek; [exact (resolve_value_pgood v tb v' Ek Hv') | inversion Hv'; subst; exact Hg]. }
  destruct v'; try discriminate; cbn [v_is_numeric negb orb v_negative] in Er.
  destruct (n_neg n) eqn:En; [discriminate|]. inversion Er; subst. exists str, (VNum n). split; [reflexivity|].
  exists n. split; [reflexivity|]. split; [exact En | exact (Hg' En)].
Qed.

Lemma translate_stmt_gorg s s' : rorg s -> translate_stmt s = Ok s' -> gorg s'.
Proof.
  intros [Hin Hr] H. unfold translate_stmt in H. apply bind_ok in H as [p [Hp H]]. inversion H; subst. unfold gorg. cbn [s_instr s_pkg].
  intros Hor. destruct (Hr Hor) as (str & v & Eo & Hg). rewrite Eo in Hp. apply as_te_ok in Hp.
  destruct (org_facts _ Hin Hor) as (_ & _ & _ & _ & _ & _ & _ & Hm).
  cbn [translate_operand] in Hp. unfold translate_pseudo in Hp. rewrite Hm in Hp.
  change (text_eqb ORG_t FCB_t) with false in Hp. change (text_eqb ORG_t FDB_t) with false in Hp.
  change (text_eqb ORG_t RMB_t) with false in Hp. change (text_eqb ORG_t ORG_t) with true in Hp. cbv iota in Hp.
  inversion Hp; subst. cbn [cp_addr]. exact Hg.
Qed.

Lemma assign_gorg : forall ss a0 em ss', assign_addresses ss a0 em = Ok ss' -> Forall gorg ss -> Forall gorg ss'.
Proof.
  induction ss as [|s r IH]; intros a0 em ss' H Hg.
  - cbn in H. inversion H; subst. constructor.
  - inversion Hg as [|? ? Hs Hr]; subst. destruct (assign_step _ _ _ _ _ H) as (x & rest & -> & Hsame & _ & Hkeep & _ & Hrest).
    constructor; [|eapply IH; eauto]. destruct Hsame as (_ & Ei & _). unfold gorg. rewrite Ei. intros Hor. specialize (Hs Hor).
    destruct Hs as (n & En & Hn). rewrite Hkeep; [exists n; auto|]. rewrite En. reflexivity.
Qed.

(* origin_of yields nothing or the own address of an ORG statement of the list *)
Lemma origin_of_good : forall ss cur, Forall gorg ss -> (cur = None \/ exists v, cur = Some v /\ good_origin v) ->
  origin_of ss cur = None \/ exists v, origin_of ss cur = Some v /\ good_origin v.
Proof.
  induction ss as [|s r IH]; intros cur Hg Hc; cbn [origin_of]; [exact Hc|].
  inversion Hg as [|? ? Hs Hr]; subst.
  assert (Hc' : (if Tables.is_origin (s_instr s) then Some (cp_addr (s_pkg s)) else cur) = None \/
                exists v, (if Tables.is_origin (s_instr s) then Some (cp_addr (s_pkg s)) else cur) = Some v /\ good_origin v).
  { destruct (Tables.is_origin (s_instr s)) eqn:Eo; [right; eexists; split; [reflexivity | exact (Hs Eo)] | exact Hc]. }
  destruct (0 <? cp_size (s_pkg s)); [exact Hc' | apply IH; assumption].
Qed.

Theorem origin_is_good fm lines r : assemble fm lines = Ok r ->
  r_origin r = None \/ exists v, r_origin r = Some v /\ good_origin v.
Proof.
  unfold assemble. intros H. apply bind_ok in H as [parsed [Hparse H]]. apply bind_ok in H as [[ss tb] [Ht H]].
  apply bind_ok in H as [rs [Hrs H]]. apply bind_ok in H as [syms [_ H]]. inversion H; subst r. clear H. cbn [r_origin].
  unfold translate_program in Ht.
  apply bind_ok in Ht as [ss0 [H0 Ht]]. apply bind_ok in Ht as [tb00 [_ Ht]]. apply bind_ok in Ht as [tb0 [_ Ht]].
  apply bind_ok in Ht as [ss1 [H1 Ht]]. apply bind_ok in Ht as [ss2 [H2 Ht]].
  apply bind_ok in Ht as [ss3 [H3 Ht]]. apply bind_ok in Ht as [ss4 [H4 Ht]].
  apply bind_ok in Ht as [ss5 [H5 Ht]]. apply bind_ok in Ht as [tb' [_ Ht]]. inversion Ht; subst ss tb. clear Ht.
  assert (P0 : Forall porg ss0) by (eapply expand_porg; [eapply parse_lines_porg; eauto | exact H0]).
  assert (R1 : Forall rorg ss1) by (eapply (map_res_Forall (resolve_stmt tb0) porg rorg); [|exact P0|exact H1]; intros a b Ha Hab; eapply resolve_stmt_rorg; eauto).
  assert (G2 : Forall gorg ss2) by (eapply (map_res_Forall translate_stmt rorg gorg); [|exact R1|exact H2]; intros a b Ha Hab; eapply translate_stmt_gorg; eauto).
  assert (G3 : Forall gorg ss3).
  { eapply (Forall2_Forall rel_size); [|eapply size_loop_rel; eauto|exact G2].
    intros a b R Ga. destruct R as (_ & Ei & _ & _ & _ & Ea & _). unfold gorg. rewrite Ei, Ea. exact Ga. }
  assert (G4 : Forall gorg ss4) by (eapply assign_gorg; eauto).
  assert (G5 : Forall gorg ss5).
  { eapply (Forall2_Forall rel_fix); [|eapply fix_all_rel; eauto|exact G4].
    intros a b R Ga. destruct R as (_ & Ei & _ & _ & _ & _ & _ & Ea & _). unfold gorg. rewrite Ei, Ea. exact Ga. }
  apply origin_of_good; [exact G5 | now left].
Qed.

(* the word written into the cassette header / disk preamble is the origin address, below 65536 *)
Theorem origin_word_is_the_origin fm lines r : assemble fm lines = Ok r ->
  origin_word (r_origin r) = origin_value r /\ origin_value r < 65536.
Proof.
  intros H. unfold origin_value. destruct (origin_is_good fm lines r H) as [-> | (v & -> & n & -> & Hneg & Hlt & Hh)].
  - split; [reflexivity | cbn; lia].
  - cbn [oval v_int]. split; [|exact Hlt]. exact (origin_word_num n Hneg Hlt Hh).
Qed.
