(* PDiskSniff.v — every disk image the tool writes passes the allocation-table check that decides
   whether content is a disk image (DiskFile.validate_allocation_table, repair F48); content whose table
   region is all zero (the recorded witness of the old finding tape_sniffed_as_disk) does not. *)
From V Require Import Base.
From V.spec Require Import SpecDisk.
From V.model Require Import MDisk MVirtualFile.
From V.proofs Require Import PDiskAlloc PDiskImage PDiskRead PDiskWrite PDiskFlat.
From Coq Require Import ZifyNat ZifyN ZifyBool.
Local Open Scope N_scope.
Ltac Zify.zify_post_hook ::= Z.div_mod_to_equations.

Lemma last_sectors_range f : 1 <= last_sectors f <= 9.
Proof.
  unfold last_sectors, last_rem, needed. set (n := slen f). clearbody n.
  assert (HG : GR = 2304%nat) by reflexivity. rewrite HG. lia.
Qed.

(* the table of a state, entry by entry *)
Definition fat68 (st : state) : list byte := map (fun g => fat_entry st (N.of_nat g)) (seq 0 68).

Lemma fat68_length st : length (fat68 st) = 68%nat.
Proof. unfold fat68. now rewrite map_length, seq_length. Qed.

Lemma nth_map_seq {A} (f : nat -> A) : forall n s g d, (g < n)%nat -> nth g (map f (seq s n)) d = f (s + g)%nat.
Proof.
  induction n as [|n IH]; intros s g d H; [lia|]. cbn [seq map]. destruct g as [|g]; cbn [nth]; [f_equal; lia|].
  rewrite IH by lia. f_equal. lia.
Qed.

Lemma fat68_nth st g : (g < 68)%nat -> nth g (fat68 st) 0 = fat_entry st (N.of_nat g).
Proof.
  intros H. unfold fat68. now rewrite nth_map_seq by assumption.
Qed.

Lemma firstn_fat_state st : firstn 68 (fat (disk_of_state st)) = fat68 st.
Proof.
  unfold disk_of_state. cbn [fat]. fold (fat68 st).
  rewrite firstn_app, fat68_length, Nat.sub_diag. rewrite firstn_O, app_nil_r.
  pose proof (fat68_length st) as Hl. rewrite <- Hl at 1. apply firstn_all.
Qed.

(* every used granule sits at some position of some chain *)
Lemma used_position st g : In g (used st) -> exists f gs k, In (f, gs) st /\ (k < length gs)%nat /\ nth k gs 0 = g.
Proof.
  unfold used. intros H. apply in_concat in H as [gs [Hgs Hg]]. apply in_map_iff in Hgs as [[f gs'] [E Hin]].
  cbn [snd] in E. subst gs'. apply In_nth with (d := 0) in Hg as [k [Hk Hn]]. eauto 7.
Qed.

Lemma fat_entry_state_ok st g : wf_state st -> g < 68 ->
  let e := fat_entry st g in
  e = 255 \/ (192 <= e <= 201) \/ (e < 68 /\ e <> g /\ fat_entry st e <> 255).
Proof.
  intros (Hn & Hr & Hc) Hg e. subst e.
  destruct (in_dec N.eq_dec g (used st)) as [Hi | Hni]; [|left; now apply fat_entry_free].
  destruct (used_position st g Hi) as (f & gs & k & Hin & Hk & Hnth). subst g.
  rewrite (fat_entry_at st f gs k Hn Hin Hk). unfold link.
  pose proof (last_sectors_range f) as Hs.
  assert (Hgs : NoDup gs /\ Forall (fun x => x < 68) gs).
  { split.
    - clear -Hn Hin. induction st as [|[f' gs'] r IH]; [destruct Hin|]. unfold used in Hn. cbn [map concat snd] in Hn. fold (used r) in Hn.
      destruct Hin as [E | Hin]; [inversion E; subst; now apply NoDup_app_l in Hn | apply IH; [now apply NoDup_app_r in Hn | assumption]].
    - apply Forall_forall. intros x Hx. unfold in_range in Hr. rewrite Forall_forall in Hr. apply Hr. eapply in_used; eauto. }
  destruct Hgs as [Hnd Hrg].
  destruct (Nat.ltb_spec (S k) (length gs)) as [Hlt | Hge].
  - right. right. rewrite Forall_forall in Hrg. split; [apply Hrg; apply nth_In; lia|]. split.
    + intro E. assert (S k = k); [|lia]. eapply (proj1 (NoDup_nth gs 0)); eauto; lia.
    + rewrite (fat_entry_at st f gs (S k) Hn Hin Hlt). unfold link.
      destruct (Nat.ltb_spec (S (S k)) (length gs)); [|lia].
      assert (nth (S (S k)) gs 0 < 68) by (apply Hrg; apply nth_In; lia). lia.
  - right. left. lia.
Qed.

Lemma combine_seq_nth {A} (l : list A) d : forall s g e, In (g, e) (combine (seq s (length l)) l) ->
  (s <= g < s + length l)%nat /\ nth (g - s) l d = e.
Proof.
  induction l as [|x l IH]; intros s g e H; [destruct H|]. cbn [length seq combine] in H. destruct H as [E | H].
  - inversion E; subst. split; [cbn [length]; lia|]. now rewrite Nat.sub_diag.
  - destruct (IH _ _ _ H) as [Hr Hn]. split; [cbn [length]; lia|].
    replace (g - s)%nat with (S (g - S s)) by lia. exact Hn.
Qed.

Theorem fat_plausible_image st : wf_state st -> fat_plausible (image_of st) = true.
Proof.
  intros Hw. unfold fat_plausible, image_of.
  rewrite slice_render by (apply dims_full_state; now apply wf_state_short).
  rewrite firstn_fat_state, fat68_length. cbn [Nat.eqb andb]. change (Nat.eqb 68 68) with true. cbn [andb].
  apply forallb_forall. intros [g e] Hin. cbn [fst snd].
  assert (Hg : (g < 68)%nat /\ e = fat_entry st (N.of_nat g)).
  { rewrite <- (fat68_length st) in Hin at 1. apply (combine_seq_nth _ 0) in Hin as [Hr He].
    rewrite fat68_length in Hr. split; [lia|]. rewrite Nat.sub_0_r in He. rewrite <- He. apply fat68_nth. lia. }
  destruct Hg as [Hg ->].
  destruct (fat_entry_state_ok st (N.of_nat g) Hw ltac:(lia)) as [E | [E | (E1 & E2 & E3)]]; unfold fat_entry_ok.
  - rewrite E. reflexivity.
  - destruct (N.ltb_spec (fat_entry st (N.of_nat g)) 68); [lia|].
    destruct (N.leb_spec 192 (fat_entry st (N.of_nat g))); [|lia]. destruct (N.leb_spec (fat_entry st (N.of_nat g)) 201); [|lia]. reflexivity.
  - destruct (N.ltb_spec (fat_entry st (N.of_nat g)) 68); [|lia].
    destruct (N.eqb_spec (fat_entry st (N.of_nat g)) (N.of_nat g)); [contradiction|]. cbn [negb andb].
    rewrite fat68_nth by lia. rewrite N2Nat.id.
    destruct (N.eqb_spec (fat_entry st (fat_entry st (N.of_nat g))) 255); [contradiction | reflexivity].
Qed.

(* content whose table region is all zero - e.g. a long tape of zero-filled files, the witness of the old
   finding - is not a disk image: granule 0 would be its own successor *)
Theorem zero_table_not_plausible buf :
  firstn 68 (fat (slice buf)) = repeat 0 68 -> fat_plausible buf = false.
Proof. intros H. unfold fat_plausible. rewrite H. vm_compute. reflexivity. Qed.
