(* PC03.v — branch and PC-relative displacements reach the referenced target (property C03).
   fix_addresses computes branch displacements by SUMMING STATEMENT SIZES and PCR displacements from
   ADDRESSES; the address pass (PLayout.placed_run) ties the two together. *)
From V Require Import Base.
From V.model Require Import MText MValues MOperands MProgram.
From V.proofs Require Import PLayout PFrames PC02 PPcr.
From V.gen Require Tables.
From Coq Require Import ZifyNat ZifyN ZifyBool.
Local Open Scope N_scope.

Definition sizeof (x : stmt) : N := cp_size (s_pkg x).

(* the value a two's-complement field of the given width denotes *)
Definition signed (bits : N) (v : N) : Z := if v <? 2 ^ (bits - 1) then Z.of_N v else (Z.of_N v - Z.of_N (2 ^ bits))%Z.

Lemma signed8_hi v : 128 <= v -> v < 256 -> signed 8 v = (Z.of_N v - 256)%Z.
Proof.
  intros H1 H2. unfold signed. replace (2 ^ (8 - 1)) with 128 by reflexivity. replace (2 ^ 8) with 256 by reflexivity.
  destruct (N.ltb_spec v 128); lia.
Qed.
Lemma signed8_lo v : v < 128 -> signed 8 v = Z.of_N v.
Proof. intros H. unfold signed. replace (2 ^ (8 - 1)) with 128 by reflexivity. destruct (N.ltb_spec v 128); lia. Qed.

Lemma num_of_Z_nonneg z h m n : (0 <= z)%Z -> num_of_Z z h m = Ok n -> n_int n = Z.to_N z /\ n_neg n = false.
Proof.
  unfold num_of_Z, num_of_int. intros Hz H. assert (E : (z <? 0)%Z = false) by (apply Z.ltb_ge; lia). rewrite E in H.
  cbn [negb andb] in H. rewrite Z.abs_eq in H by lia. destruct (65535 <? Z.to_N z); [discriminate|].
  destruct (post_init _ _ _). inversion H; subst. cbn. auto.
Qed.

Lemma sum_range_S f l i k x : nth_error l i = Some x -> sum_range f l i (S k) = f x + sum_range f l (S i) k.
Proof. intros H. cbn [sum_range]. now rewrite H. Qed.

Lemma sum_range_snoc f : forall k l i x, nth_error l (i + k) = Some x ->
  sum_range f l i (S k) = sum_range f l i k + f x.
Proof.
  induction k as [|k IH]; intros l i x H.
  - rewrite Nat.add_0_r in H. cbn [sum_range]. rewrite H. lia.
  - cbn [sum_range]. replace (i + S k)%nat with (S i + k)%nat in H by lia.
    specialize (IH l (S i) x H). cbn [sum_range] in IH. rewrite IH. lia.
Qed.

Section Branch.
  (* ss3 = the statements before the address pass, ss4 = after it (placed), this/target = indices *)
  Variables (ss3 ss4 : list stmt) (a0 : N).
  Hypothesis Hplaced : placed ss3 ss4 a0.

  Definition no_org_between (i j : nat) : Prop :=
    forall k b, (i < k <= j)%nat -> nth_error ss3 k = Some b -> has_own_address b = false.

  (* backward (or self) short branch *)
  Theorem short_branch_backward this t s tgt s' :
    nth_error ss4 this = Some s -> nth_error ss4 t = Some tgt -> (t <= this)%nat ->
    is_relative_op (s_operand s) = true -> Tables.is_short_branch (s_instr s) = true ->
    v_int (cp_add (s_pkg s)) = N.of_nat t -> 0 < sizeof s ->
    no_org_between t this ->
    fix_stmt ss4 (N.of_nat this) s = Ok s' ->
    exists n, cp_add (s_pkg s') = VNum n /\ n_neg n = false /\ n_int n < 256 /\
              (Z.of_N (addr_of_stmt s) + Z.of_N (sizeof s) + signed 8 (n_int n) = Z.of_N (addr_of_stmt tgt))%Z.
  Proof.
    intros Hs Ht Hle Hrel Hshort Hidx Hpos Hno Hfix.
    unfold fix_stmt in Hfix. rewrite Hrel, Hshort, Hidx in Hfix. cbv beta iota zeta in Hfix.
    assert (E : (N.of_nat t <=? N.of_nat this) = true) by (apply N.leb_le; lia). rewrite E in Hfix.
    rewrite !Nat2N.id in Hfix. replace (N.to_nat (N.of_nat this + 1 - N.of_nat t)) with (S (this - t)) in Hfix by lia.
    set (sum := sum_range (fun x => cp_size (s_pkg x)) ss4 t (S (this - t))) in *.
    destruct (true && (129 <? 1 + sum)) eqn:Erange; [discriminate|]. cbn [andb] in Erange. apply N.ltb_ge in Erange.
    apply bind_ok in Hfix as [n [Hn Hfix]]. inversion Hfix; subst s'. cbn.
    assert (Hsum : sum = addr_of_stmt s - addr_of_stmt tgt + sizeof s /\ addr_of_stmt tgt <= addr_of_stmt s).
    { unfold sum. rewrite (sum_range_snoc _ (this - t) ss4 t s) by (replace (t + (this - t))%nat with this by lia; exact Hs).
      pose proof (placed_run (this - t) ss3 ss4 a0 t tgt s Hplaced Ht) as Hrun.
      replace (t + (this - t))%nat with this in Hrun by lia. specialize (Hrun Hs).
      rewrite Hrun by (intros j b Hj; apply Hno; lia). unfold sizeof. lia. }
    destruct Hsum as [Hsum Hle2]. clearbody sum.
    unfold as_translation_error in Hn. destruct (num_of_Z _ _ _) as [n'| | | |] eqn:En; try discriminate. inversion Hn; subst n'.
    assert (Hz : (0 <= Z.of_N 257 - Z.of_N (1 + sum))%Z) by lia.
    destruct (num_of_Z_nonneg _ _ _ _ Hz En) as [Hint Hneg].
    exists n. split; [reflexivity|]. split; [exact Hneg|].
    assert (Hv : n_int n = 257 - (1 + sum)) by (rewrite Hint; lia).
    split; [lia|]. rewrite signed8_hi by lia. lia.
  Qed.

  (* forward short branch *)
  Theorem short_branch_forward this t s tgt s' :
    nth_error ss4 this = Some s -> nth_error ss4 t = Some tgt -> (this < t)%nat ->
    is_relative_op (s_operand s) = true -> Tables.is_short_branch (s_instr s) = true ->
    v_int (cp_add (s_pkg s)) = N.of_nat t ->
    no_org_between this t ->
    fix_stmt ss4 (N.of_nat this) s = Ok s' ->
    exists n, cp_add (s_pkg s') = VNum n /\ n_neg n = false /\ n_int n < 128 /\
              (Z.of_N (addr_of_stmt s) + Z.of_N (sizeof s) + signed 8 (n_int n) = Z.of_N (addr_of_stmt tgt))%Z.
  Proof.
    intros Hs Ht Hlt Hrel Hshort Hidx Hno Hfix.
    unfold fix_stmt in Hfix. rewrite Hrel, Hshort, Hidx in Hfix. cbv beta iota zeta in Hfix.
    assert (E : (N.of_nat t <=? N.of_nat this) = false) by (apply N.leb_gt; lia). rewrite E in Hfix.
    replace (N.to_nat (N.of_nat this + 1)) with (S this) in Hfix by lia.
    replace (N.to_nat (N.of_nat t - (N.of_nat this + 1))) with (t - S this)%nat in Hfix by lia.
    set (sum := sum_range (fun x => cp_size (s_pkg x)) ss4 (S this) (t - S this)) in *.
    destruct (true && (127 <? sum)) eqn:Erange; [discriminate|]. cbn [andb] in Erange. apply N.ltb_ge in Erange.
    apply bind_ok in Hfix as [n [Hn Hfix]]. inversion Hfix; subst s'. cbn.
    pose proof (placed_run (t - this) ss3 ss4 a0 this s tgt Hplaced Hs) as Hrun.
    replace (this + (t - this))%nat with t in Hrun by lia. specialize (Hrun Ht ltac:(intros j b Hj; apply Hno; lia)).
    replace (t - this)%nat with (S (t - S this)) in Hrun by lia. rewrite (sum_range_S _ _ _ _ _ Hs) in Hrun. fold sum in Hrun. clearbody sum.
    unfold as_translation_error in Hn. destruct (num_of_Z _ _ _) as [n'| | | |] eqn:En; try discriminate. inversion Hn; subst n'.
    assert (Hz : (0 <= Z.of_N sum)%Z) by lia.
    destruct (num_of_Z_nonneg _ _ _ _ Hz En) as [Hint Hneg].
    exists n. split; [reflexivity|]. split; [exact Hneg|]. rewrite Hint, N2Z.id. split; [lia|].
    rewrite signed8_lo by lia. unfold sizeof. lia.
  Qed.

  (* a short branch whose target is out of range is rejected with a TranslationError *)
  Theorem short_branch_out_of_range_rejected this t s :
    is_relative_op (s_operand s) = true -> Tables.is_short_branch (s_instr s) = true ->
    v_int (cp_add (s_pkg s)) = N.of_nat t ->
    ((t <= this)%nat /\ 129 < 1 + sum_range (fun x => cp_size (s_pkg x)) ss4 t (S (this - t))) \/
    ((this < t)%nat /\ 127 < sum_range (fun x => cp_size (s_pkg x)) ss4 (S this) (t - S this)) ->
    fix_stmt ss4 (N.of_nat this) s = Diag 2.
  Proof.
    intros Hrel Hshort Hidx Hcase. unfold fix_stmt. rewrite Hrel, Hshort, Hidx. cbv beta iota zeta.
    destruct Hcase as [[Hle Hbig] | [Hlt Hbig]].
    - assert (E : (N.of_nat t <=? N.of_nat this) = true) by (apply N.leb_le; lia). rewrite E.
      rewrite !Nat2N.id. replace (N.to_nat (N.of_nat this + 1 - N.of_nat t)) with (S (this - t)) by lia.
      apply N.ltb_lt in Hbig. now rewrite Hbig.
    - assert (E : (N.of_nat t <=? N.of_nat this) = false) by (apply N.leb_gt; lia). rewrite E.
      replace (N.to_nat (N.of_nat this + 1)) with (S this) by lia.
      replace (N.to_nat (N.of_nat t - (N.of_nat this + 1))) with (t - S this)%nat by lia.
      apply N.ltb_lt in Hbig. now rewrite Hbig.
  Qed.
  (* long branches: the 16-bit field reaches the target modulo 65536 *)
  Theorem long_branch_backward this t s tgt s' :
    nth_error ss4 this = Some s -> nth_error ss4 t = Some tgt -> (t <= this)%nat ->
    is_relative_op (s_operand s) = true -> Tables.is_short_branch (s_instr s) = false ->
    v_int (cp_add (s_pkg s)) = N.of_nat t ->
    no_org_between t this ->
    1 + sum_range (fun x => cp_size (s_pkg x)) ss4 t (S (this - t)) <= 65537 ->
    fix_stmt ss4 (N.of_nat this) s = Ok s' ->
    exists n, cp_add (s_pkg s') = VNum n /\ n_neg n = false /\
              ((Z.of_N (addr_of_stmt s) + Z.of_N (sizeof s) + Z.of_N (n_int n)) mod 65536 = Z.of_N (addr_of_stmt tgt) mod 65536)%Z.
  Proof.
    intros Hs Ht Hle Hrel Hshort Hidx Hno Hfit Hfix.
    unfold fix_stmt in Hfix. rewrite Hrel, Hshort, Hidx in Hfix. cbv beta iota zeta in Hfix.
    assert (E : (N.of_nat t <=? N.of_nat this) = true) by (apply N.leb_le; lia). rewrite E in Hfix.
    rewrite !Nat2N.id in Hfix. replace (N.to_nat (N.of_nat this + 1 - N.of_nat t)) with (S (this - t)) in Hfix by lia.
    set (sum := sum_range (fun x => cp_size (s_pkg x)) ss4 t (S (this - t))) in *.
    cbn [andb] in Hfix.
    apply bind_ok in Hfix as [n [Hn Hfix]]. inversion Hfix; subst s'. cbn.
    assert (Hsum : sum = addr_of_stmt s - addr_of_stmt tgt + sizeof s /\ addr_of_stmt tgt <= addr_of_stmt s).
    { unfold sum. rewrite (sum_range_snoc _ (this - t) ss4 t s) by (replace (t + (this - t))%nat with this by lia; exact Hs).
      pose proof (placed_run (this - t) ss3 ss4 a0 t tgt s Hplaced Ht) as Hrun.
      replace (t + (this - t))%nat with this in Hrun by lia. specialize (Hrun Hs).
      rewrite Hrun by (intros j b Hj; apply Hno; lia). unfold sizeof. lia. }
    destruct Hsum as [Hsum Hle2]. clearbody sum.
    unfold as_translation_error in Hn. destruct (num_of_Z _ _ _) as [n'| | | |] eqn:En; try discriminate. inversion Hn; subst n'.
    assert (Hz : (0 <= Z.of_N 65537 - Z.of_N (1 + sum))%Z) by lia.
    destruct (num_of_Z_nonneg _ _ _ _ Hz En) as [Hint Hneg].
    exists n. split; [reflexivity|]. split; [exact Hneg|]. rewrite Hint. rewrite Z2N.id by lia. unfold sizeof in *.
    replace (Z.of_N (addr_of_stmt s) + Z.of_N (cp_size (s_pkg s)) + (Z.of_N 65537 - Z.of_N (1 + sum)))%Z
      with (Z.of_N (addr_of_stmt tgt) + 1 * 65536)%Z by lia.
    apply Z.mod_add. lia.
  Qed.

  Theorem long_branch_forward this t s tgt s' :
    nth_error ss4 this = Some s -> nth_error ss4 t = Some tgt -> (this < t)%nat ->
    is_relative_op (s_operand s) = true -> Tables.is_short_branch (s_instr s) = false ->
    v_int (cp_add (s_pkg s)) = N.of_nat t ->
    no_org_between this t ->
    fix_stmt ss4 (N.of_nat this) s = Ok s' ->
    exists n, cp_add (s_pkg s') = VNum n /\ n_neg n = false /\
              (Z.of_N (addr_of_stmt s) + Z.of_N (sizeof s) + Z.of_N (n_int n) = Z.of_N (addr_of_stmt tgt))%Z.
  Proof.
    intros Hs Ht Hlt Hrel Hshort Hidx Hno Hfix.
    unfold fix_stmt in Hfix. rewrite Hrel, Hshort, Hidx in Hfix. cbv beta iota zeta in Hfix.
    assert (E : (N.of_nat t <=? N.of_nat this) = false) by (apply N.leb_gt; lia). rewrite E in Hfix.
    replace (N.to_nat (N.of_nat this + 1)) with (S this) in Hfix by lia.
    replace (N.to_nat (N.of_nat t - (N.of_nat this + 1))) with (t - S this)%nat in Hfix by lia.
    set (sum := sum_range (fun x => cp_size (s_pkg x)) ss4 (S this) (t - S this)) in *.
    cbn [andb] in Hfix.
    apply bind_ok in Hfix as [n [Hn Hfix]]. inversion Hfix; subst s'. cbn.
    pose proof (placed_run (t - this) ss3 ss4 a0 this s tgt Hplaced Hs) as Hrun.
    replace (this + (t - this))%nat with t in Hrun by lia. specialize (Hrun Ht ltac:(intros j b Hj; apply Hno; lia)).
    replace (t - this)%nat with (S (t - S this)) in Hrun by lia. rewrite (sum_range_S _ _ _ _ _ Hs) in Hrun. fold sum in Hrun. clearbody sum.
    unfold as_translation_error in Hn. destruct (num_of_Z _ _ _) as [n'| | | |] eqn:En; try discriminate. inversion Hn; subst n'.
    assert (Hz : (0 <= Z.of_N sum)%Z) by lia.
    destruct (num_of_Z_nonneg _ _ _ _ Hz En) as [Hint Hneg].
    exists n. split; [reflexivity|]. split; [exact Hneg|]. rewrite Hint, N2Z.id. unfold sizeof. lia.
  Qed.
End Branch.

(* ---------- label,PCR ---------- *)
Ltac Zify.zify_post_hook ::= Z.div_mod_to_equations.

Definition num_val (n : num) : Z := if n_neg n then (- Z.of_N (n_int n))%Z else Z.of_N (n_int n).

Lemma num_of_Z_val z h m n : num_of_Z z h m = Ok n -> num_val n = z.
Proof.
  unfold num_of_Z, num_of_int, num_val. intros H. destruct (z <? 0)%Z eqn:Ez.
  - cbn [negb andb] in H. destruct (post_init _ _ _). inversion H; subst. cbn.
    apply Z.ltb_lt in Ez. destruct (N.eqb_spec (Z.to_N (Z.abs z)) 0); cbn; lia.
  - cbn [negb andb] in H. destruct (65535 <? _); [discriminate|]. destruct (post_init _ _ _). inversion H; subst. cbn.
    apply Z.ltb_ge in Ez. lia.
Qed.

(* the displacement stored for a label,PCR operand reaches the label modulo 65536 *)
Theorem pcr_displacement_reaches_target ss4 this s s' tgt_addr start :
  is_relative_op (s_operand s) = false ->
  (forall l op r m, operand_left (s_operand s) <> Some (LVal (VExpr l op r m true))) ->
  (match operand_value (s_operand s) with VLR _ _ _ => True | _ => False end) ->
  cp_needs (s_pkg s) = true -> addr_offset (s_pkg s) = false ->
  addr_of ss4 (v_int (cp_add (s_pkg s))) = Ok tgt_addr -> addr_of ss4 this = Ok start ->
  fix_stmt ss4 this s = Ok s' ->
  exists n, cp_add (s_pkg s') = VNum n /\ (-32768 <= num_val n <= 32767)%Z /\
            ((Z.of_N start + Z.of_N (cp_size (s_pkg s)) + num_val n) mod 65536 = Z.of_N tgt_addr mod 65536)%Z.
Proof.
  intros Hrel Hleft Hov Hneeds Hao Htgt Hstart Hfix. unfold fix_stmt in Hfix. rewrite Hrel in Hfix.
  destruct (operand_value (s_operand s)) eqn:Eov; try contradiction. cbn [bind] in Hfix. rewrite Hao, Hneeds in Hfix.
  assert (Hl : (match operand_left (s_operand s) with
                | Some (LVal (VExpr l0 op r0 _ true)) =>
                    do v <- calc_offset ss4 l0 op r0;
                    Ok (if v_negative v then (- Z.of_N (v_int v))%Z else Z.of_N (v_int v))
                | _ => do a <- addr_of ss4 (v_int (cp_add (s_pkg s))); Ok (Z.of_N a)
                end) = Ok (Z.of_N tgt_addr)).
  { destruct (operand_left (s_operand s)) as [[tx|vx]|] eqn:El; try (rewrite Htgt; reflexivity).
    destruct vx; try (rewrite Htgt; reflexivity). destruct addr; [|rewrite Htgt; reflexivity].
    exfalso. eapply Hleft. reflexivity. }
  rewrite Hl in Hfix. cbn [bind] in Hfix. rewrite Hstart in Hfix. cbn [bind] in Hfix.
  apply bind_ok in Hfix as [n [Hn Hfix]]. inversion Hfix; subst s'. cbn.
  unfold as_translation_error in Hn. destruct (num_of_Z _ _ _) as [n'| | | |] eqn:En; try discriminate. inversion Hn; subst n'.
  exists n. split; [reflexivity|]. rewrite (num_of_Z_val _ _ _ _ En). split; lia.
Qed.

(* when the span estimate that allowed the 8-bit form holds for the final sizes (PPcr.pcr_width_sound),
   the true displacement is inside -128..127, so the 8-bit field holds it *)
Section Width.
  Variables (ss3 ss4 : list stmt) (a0 : N).
  Hypothesis Hplaced : placed ss3 ss4 a0.
  Hypothesis Hinv : Forall inv_s ss3.

  Lemma size_le_max from cnt : sum_range (fun x => cp_size (s_pkg x)) ss3 from cnt <= sum_range (fun x => cp_max (s_pkg x)) ss3 from cnt.
  Proof. apply sum_range_le_same. eapply Forall_impl; [|exact Hinv]. intros a [H _]. exact H. Qed.

  Lemma placed_sizes : forall (l l' : list stmt) a, placed l l' a -> forall from cnt,
    sum_range (fun x => cp_size (s_pkg x)) l' from cnt = sum_range (fun x => cp_size (s_pkg x)) l from cnt.
  Proof.
    intros l l' a H from cnt. revert from. induction cnt as [|c IH]; intros from; cbn [sum_range]; [reflexivity|].
    rewrite IH. f_equal. destruct (nth_error l from) as [x|] eqn:Ex.
    - destruct (placed_pointwise _ _ _ _ _ H Ex) as [x' [Ex' [(_&_&_&_&_&_&_&_&_&Es&_) _]]]. now rewrite Ex', Es.
    - assert (nth_error l' from = None) by (apply nth_error_None; apply nth_error_None in Ex; now rewrite (placed_length _ _ _ H)).
      now rewrite H0.
  Qed.

  Theorem pcr_8bit_displacement_fits this rel s3 s4 tgt off :
    nth_error ss3 this = Some s3 -> nth_error ss4 this = Some s4 -> nth_error ss4 rel = Some tgt ->
    rel_index_of s3 = N.of_nat rel -> rel <> this -> fst (pcr_offset s3 false) = off ->
    sound8 ss3 this s3 ->
    (forall k b, (Nat.min this rel < k <= Nat.max this rel)%nat -> nth_error ss3 k = Some b -> has_own_address b = false) ->
    (-128 <= Z.of_N (addr_of_stmt tgt) + off - (Z.of_N (addr_of_stmt s4) + Z.of_N (cp_size (s_pkg s4))) <= 127)%Z.
  Proof.
    intros H3 H4 Ht Hrel Hne Hoff Hsound Hno.
    unfold sound8, pcr_span in Hsound. rewrite Hrel, Hoff in Hsound.
    assert (Hsz : cp_size (s_pkg s4) = cp_size (s_pkg s3)).
    { destruct (placed_pointwise _ _ _ _ _ Hplaced H3) as [x' [Ex' [(_&_&_&_&_&_&_&_&_&Es&_) _]]]. rewrite H4 in Ex'. inversion Ex'; subst. exact Es. }
    destruct (N.ltb_spec (N.of_nat rel) (N.of_nat this)) as [Hlt | Hge].
    - (* backward: the range rel..this *)
      replace (N.to_nat (N.of_nat rel)) with rel in Hsound by lia.
      replace (N.to_nat (N.of_nat this + 1 - N.of_nat rel)) with (S (this - rel)) in Hsound by lia.
      pose proof (size_le_max rel (S (this - rel))) as Hsm. rewrite <- (placed_sizes _ _ _ Hplaced) in Hsm.
      rewrite (sum_range_snoc _ (this - rel) ss4 rel s4) in Hsm by (replace (rel + (this - rel))%nat with this by lia; exact H4).
      rewrite <- (placed_sizes _ _ _ Hplaced) in Hsound.
      rewrite (sum_range_snoc _ (this - rel) ss4 rel s4) in Hsound by (replace (rel + (this - rel))%nat with this by lia; exact H4).
      pose proof (placed_run (this - rel) ss3 ss4 a0 rel tgt s4 Hplaced Ht) as Hrun.
      replace (rel + (this - rel))%nat with this in Hrun by lia.
      specialize (Hrun H4 ltac:(intros j b Hj; apply Hno; lia)).
      set (sumsz := sum_range (fun x => cp_size (s_pkg x)) ss4 rel (this - rel)) in *.
      set (summx := sum_range (fun x => cp_max (s_pkg x)) ss3 rel (S (this - rel))) in *. clearbody sumsz summx.
      unfold pcr_fits8 in Hsound. repeat (apply andb_true_iff in Hsound as [Hsound ?]).
      repeat match goal with Hx : (_ <=? _) = true |- _ => apply N.leb_le in Hx end;
      repeat match goal with Hx : (_ <=? _)%Z = true |- _ => apply Z.leb_le in Hx end. lia.
    - (* forward: the range this..rel-1 *)
      replace (N.to_nat (N.of_nat this)) with this in Hsound by lia.
      replace (N.to_nat (N.of_nat rel - N.of_nat this)) with (S (rel - S this)) in Hsound by lia.
      pose proof (size_le_max this (S (rel - S this))) as Hsm. rewrite <- (placed_sizes _ _ _ Hplaced) in Hsm.
      rewrite (sum_range_S _ _ _ _ _ H4) in Hsm.
      rewrite <- (placed_sizes _ _ _ Hplaced) in Hsound.
      rewrite (sum_range_S _ _ _ _ _ H4) in Hsound.
      pose proof (placed_run (rel - this) ss3 ss4 a0 this s4 tgt Hplaced H4) as Hrun.
      replace (this + (rel - this))%nat with rel in Hrun by lia.
      specialize (Hrun Ht ltac:(intros j b Hj; apply Hno; lia)).
      replace (rel - this)%nat with (S (rel - S this)) in Hrun by lia. rewrite (sum_range_S _ _ _ _ _ H4) in Hrun.
      set (sumsz := sum_range (fun x => cp_size (s_pkg x)) ss4 (S this) (rel - S this)) in *.
      set (summx := sum_range (fun x => cp_max (s_pkg x)) ss3 this (S (rel - S this))) in *. clearbody sumsz summx.
      unfold pcr_fits8 in Hsound. repeat (apply andb_true_iff in Hsound as [Hsound ?]).
      repeat match goal with Hx : (_ <=? _) = true |- _ => apply N.leb_le in Hx end;
      repeat match goal with Hx : (_ <=? _)%Z = true |- _ => apply Z.leb_le in Hx end. lia.
  Qed.
End Width.
