(* PDiskImage.v — what the image rendered from a well-formed history state contains:
   table links, granule contents, chain walk, stream recovery, directory entries.
   Shared by C08 (fsck), C07 (round trip) and C15 (free count on the image). *)
From V Require Import Base.
From V.spec Require Import SpecDisk.
From V.model Require Import MDisk.
From V.proofs Require Import PDiskAlloc.
Local Open Scope N_scope.

(* ---------- generic list facts ---------- *)

Lemma nth_map_seq {A} (f : nat -> A) len n d : (n < len)%nat -> nth n (map f (seq 0 len)) d = f n.
Proof.
  intros H. rewrite (nth_indep _ d (f 0%nat)) by (rewrite map_length, seq_length; exact H).
  rewrite map_nth. now rewrite seq_nth.
Qed.

Lemma skipn_cons_nth {A} : forall k (l : list A) d, (k < length l)%nat -> skipn k l = nth k l d :: skipn (S k) l.
Proof.
  induction k as [|k IH]; intros [|x l] d H; cbn [length] in H; try lia; [reflexivity|].
  cbn [skipn nth]. apply IH. lia.
Qed.

Lemma in_used st f gs g : In (f, gs) st -> In g gs -> In g (used st).
Proof.
  intros H1 H2. unfold used. apply in_concat. exists gs. split; [|assumption].
  apply in_map_iff. exists (f, gs). now split.
Qed.

Lemma nth_in_used st g : In g (used st) -> exists f gs k, In (f, gs) st /\ (k < length gs)%nat /\ nth k gs 0 = g.
Proof.
  unfold used. intros H. apply in_concat in H as [gs [Hgs Hg]]. apply in_map_iff in Hgs as [[f gs'] [E Hin]].
  cbn [snd] in E. subst gs'. destruct (In_nth _ _ 0 Hg) as [k [Hk E]]. exists f, gs, k. auto.
Qed.

Lemma NoDup_app_l {A} (a b : list A) : NoDup (a ++ b) -> NoDup a.
Proof.
  induction a as [|x a IH]; intros H; [constructor|]. cbn [app] in H. inversion H as [|? ? Hx H']; subst.
  constructor; [intro Hi; apply Hx; apply in_or_app; now left | now apply IH].
Qed.
Lemma NoDup_app_r {A} (a b : list A) : NoDup (a ++ b) -> NoDup b.
Proof. induction a as [|x a IH]; intros H; [exact H|]. cbn [app] in H. inversion H; subst. now apply IH. Qed.
Lemma NoDup_app_disj {A} (a b : list A) x : NoDup (a ++ b) -> In x a -> ~ In x b.
Proof.
  induction a as [|y a IH]; intros H Ha Hb; [destruct Ha|]. cbn [app] in H. inversion H as [|? ? Hy H']; subst.
  destruct Ha as [-> | Ha]; [apply Hy; apply in_or_app; now right | now apply (IH H' Ha)].
Qed.

(* ---------- one chain ---------- *)

Definition link (gs : list N) (s : N) (k : nat) : byte :=
  if Nat.ltb (S k) (length gs) then nth (S k) gs 0 else 192 + s.

Lemma chain_entry_notin gs s g : ~ In g gs -> chain_entry gs s g = None.
Proof.
  induction gs as [|x r IH]; intros H; [reflexivity|]. cbn [chain_entry].
  destruct (N.eqb_spec x g) as [->|Hne]; [exfalso; apply H; now left|]. apply IH. intro Hi. apply H. now right.
Qed.

Lemma chain_entry_nth : forall gs s k, NoDup gs -> (k < length gs)%nat ->
  chain_entry gs s (nth k gs 0) = Some (link gs s k).
Proof.
  induction gs as [|x r IH]; intros s k Hn Hk; [cbn in Hk; lia|].
  inversion Hn as [|? ? Hx Hr]; subst. destruct k as [|k].
  - cbn [nth chain_entry]. rewrite N.eqb_refl. unfold link. cbn [length].
    destruct r as [|y r']; cbn [length]; [reflexivity|].
    destruct (Nat.ltb_spec 1 (S (S (length r')))); [reflexivity | lia].
  - cbn [nth chain_entry]. cbn [length] in Hk.
    destruct (N.eqb_spec x (nth k r 0)) as [E|Hne].
    + exfalso. apply Hx. rewrite E. apply nth_In. lia.
    + rewrite IH by (assumption || lia). unfold link. cbn [length].
      destruct (Nat.ltb_spec (S k) (length r)); destruct (Nat.ltb_spec (S (S k)) (S (length r))); try lia; reflexivity.
Qed.

Lemma index_of_notin g gs j : ~ In g gs -> index_of g gs j = None.
Proof.
  revert j. induction gs as [|x r IH]; intros j H; [reflexivity|]. cbn [index_of].
  destruct (N.eqb_spec x g) as [->|Hne]; [exfalso; apply H; now left|]. apply IH. intro Hi. apply H. now right.
Qed.

Lemma index_of_nth : forall gs k j, NoDup gs -> (k < length gs)%nat -> index_of (nth k gs 0) gs j = Some (j + k)%nat.
Proof.
  induction gs as [|x r IH]; intros k j Hn Hk; [cbn in Hk; lia|].
  inversion Hn as [|? ? Hx Hr]; subst. destruct k as [|k].
  - cbn [nth index_of]. rewrite N.eqb_refl. f_equal. lia.
  - cbn [nth index_of]. cbn [length] in Hk.
    destruct (N.eqb_spec x (nth k r 0)) as [E|Hne].
    + exfalso. apply Hx. rewrite E. apply nth_In. lia.
    + rewrite IH by (assumption || lia). f_equal. lia.
Qed.

(* ---------- the whole state ---------- *)

Lemma fat_entry_at : forall st f gs k, NoDup (used st) -> In (f, gs) st -> (k < length gs)%nat ->
  fat_entry st (nth k gs 0) = link gs (last_sectors f) k.
Proof.
  induction st as [|[f' gs'] r IH]; intros f gs k Hn Hin Hk; [destruct Hin|].
  unfold used in Hn. cbn [map concat snd] in Hn. fold (used r) in Hn. cbn [fat_entry].
  destruct Hin as [E | Hin].
  - inversion E; subst. rewrite chain_entry_nth; [reflexivity | now apply NoDup_app_l in Hn | assumption].
  - rewrite chain_entry_notin.
    + apply IH; [now apply NoDup_app_r in Hn | assumption | assumption].
    + intro Hi. apply (NoDup_app_disj _ _ _ Hn Hi). eapply in_used; [exact Hin|]. apply nth_In. exact Hk.
Qed.

Lemma fat_entry_free : forall st g, ~ In g (used st) -> fat_entry st g = 255.
Proof.
  induction st as [|[f gs] r IH]; intros g H; [reflexivity|].
  unfold used in H. cbn [map concat snd] in H. fold (used r) in H. cbn [fat_entry].
  rewrite chain_entry_notin by (intro Hi; apply H; apply in_or_app; now left).
  apply IH. intro Hi. apply H. apply in_or_app. now right.
Qed.

Lemma gran_content_at : forall st f gs k, NoDup (used st) -> In (f, gs) st -> (k < length gs)%nat ->
  gran_content st (nth k gs 0) = chunk k (stream f).
Proof.
  induction st as [|[f' gs'] r IH]; intros f gs k Hn Hin Hk; [destruct Hin|].
  unfold used in Hn. cbn [map concat snd] in Hn. fold (used r) in Hn. cbn [gran_content].
  destruct Hin as [E | Hin].
  - inversion E; subst. rewrite index_of_nth; [reflexivity | now apply NoDup_app_l in Hn | assumption].
  - rewrite index_of_notin.
    + apply IH; [now apply NoDup_app_r in Hn | assumption | assumption].
    + intro Hi. apply (NoDup_app_disj _ _ _ Hn Hi). eapply in_used; [exact Hin|]. apply nth_In. exact Hk.
Qed.

Lemma gran_content_free : forall st g, ~ In g (used st) -> gran_content st g = repeat 255 GR.
Proof.
  induction st as [|[f gs] r IH]; intros g H; [reflexivity|].
  unfold used in H. cbn [map concat snd] in H. fold (used r) in H. cbn [gran_content].
  rewrite index_of_notin by (intro Hi; apply H; apply in_or_app; now left).
  apply IH. intro Hi. apply H. apply in_or_app. now right.
Qed.

(* accessors of the rendered structure *)
Lemma fat_at_state st g : g < 68 -> fat_at (disk_of_state st) g = fat_entry st g.
Proof.
  intros H. unfold fat_at, disk_of_state. cbn [fat].
  rewrite app_nth1 by (rewrite map_length, seq_length; lia).
  rewrite nth_map_seq by lia. now rewrite N2Nat.id.
Qed.

Lemma gran_at_state st g : g < 68 -> gran_at (disk_of_state st) g = gran_content st g.
Proof.
  intros H. unfold gran_at, disk_of_state. cbn [gran].
  rewrite nth_map_seq by lia. now rewrite N2Nat.id.
Qed.

(* ---------- walking a stored chain ---------- *)

Lemma last_sectors_range f : 1 <= last_sectors f <= 9.
Proof.
  unfold last_sectors, last_rem. pose proof (needed_minimal f) as [H1 H2]. unfold GR in *.
  assert (H : (slen f - (needed f - 1) * 2304 < 2304)%nat) by lia.
  assert (Hd : ((slen f - (needed f - 1) * 2304) / 256 <= 8)%nat).
  { apply Nat.lt_succ_r. apply Nat.div_lt_upper_bound; lia. }
  lia.
Qed.

Lemma walk_chain st f gs : NoDup (used st) -> in_range (used st) -> In (f, gs) st ->
  forall k fuel, (k < length gs)%nat -> (length gs - k <= fuel)%nat ->
  walk (disk_of_state st) fuel (nth k gs 0) = Some (skipn k gs, last_sectors f).
Proof.
  intros Hn Hr Hin.
  assert (Hlt : forall k, (k < length gs)%nat -> nth k gs 0 < 68).
  { intros k Hk. unfold in_range in Hr. rewrite Forall_forall in Hr. apply Hr. eapply in_used; [exact Hin|]. now apply nth_In. }
  intros k fuel. remember (length gs - k)%nat as m eqn:Em. revert k fuel Em.
  induction m as [|m IH]; intros k fuel Em Hk Hf; [lia|].
  destruct fuel as [|fuel]; [lia|]. cbn [walk].
  pose proof (Hlt k Hk) as Hg. assert (E : (nth k gs 0 <? 68) = true) by now apply N.ltb_lt. rewrite E.
  rewrite fat_at_state by assumption. rewrite (fat_entry_at st f gs k Hn Hin Hk).
  unfold link. pose proof (last_sectors_range f) as Hs.
  destruct (Nat.ltb (S k) (length gs)) eqn:E1.
  - apply Nat.ltb_lt in E1. pose proof (Hlt (S k) E1) as Hg'.
    assert (E2 : ((192 <=? nth (S k) gs 0) && (nth (S k) gs 0 <=? 201)) = false).
    { apply andb_false_iff. left. apply N.leb_gt. lia. }
    rewrite E2. assert (E3 : (nth (S k) gs 0 <? 68) = true) by now apply N.ltb_lt. rewrite E3.
    rewrite (IH (S k) fuel) by lia.
    f_equal. f_equal. rewrite (skipn_cons_nth k gs 0 Hk) at 1. reflexivity.
  - apply Nat.ltb_ge in E1.
    assert (E2 : ((192 <=? 192 + last_sectors f) && (192 + last_sectors f <=? 201)) = true).
    { apply andb_true_iff. split; apply N.leb_le; lia. }
    rewrite E2. f_equal. f_equal; [|lia].
    assert (Hk' : k = (length gs - 1)%nat) by lia.
    rewrite (skipn_cons_nth k gs 0 Hk). f_equal. rewrite skipn_all2 by lia. reflexivity.
Qed.
