(* PC04.v — symbols and two-term expressions evaluate to their arithmetic value (property C04).
   (1) the arithmetic itself: + - * and truncating /, division by zero rejected;
   (2) an expression of constants (literals in any spelling, EQU symbols wherever they are defined)
       resolves to the number that arithmetic gives, or is rejected when it is outside -32768..65535;
   (3) an expression with a label evaluates, after layout, to the same arithmetic on the label's address;
   (4) at a 16-bit operand position that value is emitted modulo 65536 (or rejected), at an 8-bit
       position it is emitted as one byte or rejected. *)
From V Require Import Base.
From V.model Require Import MText MValues MOperands MProgram.
From V.proofs Require Import PLayout PHex PRender PC03.
From Coq Require Import ZifyNat ZifyN ZifyBool.
Local Open Scope N_scope.
Ltac Zify.zify_post_hook ::= Z.div_mod_to_equations.

(* the arithmetic the property names *)
Definition arith (op : N) (a b : Z) : option Z :=
  if op =? 43 then Some (a + b)%Z
  else if op =? 45 then Some (a - b)%Z
  else if op =? 42 then Some (a * b)%Z
  else if (b =? 0)%Z then None else Some (Z.quot a b).       (* truncating toward zero *)

(* ---------- (1) ---------- *)
Theorem expr_arith_is_arith op a b :
  expr_arith op a b = match arith op a b with Some z => Ok z | None => Diag 23 end.
Proof.
  unfold expr_arith, arith. destruct (op =? 43); [reflexivity|]. destruct (op =? 45); [reflexivity|].
  destruct (op =? 42); [reflexivity|]. destruct (b =? 0)%Z; reflexivity.
Qed.

(* / truncates toward zero: the magnitude is the floor of the magnitudes' quotient, the sign is the
   product of the signs *)
Theorem truncating_division a b : b <> 0%Z ->
  arith 47 a b = Some (Z.sgn a * Z.sgn b * (Z.abs a / Z.abs b))%Z.
Proof.
  intros Hb. unfold arith. change (47 =? 43) with false. change (47 =? 45) with false. change (47 =? 42) with false.
  cbv iota. destruct (Z.eqb_spec b 0); [contradiction|]. f_equal. now apply Z.quot_div.
Qed.

(* ---------- (2) constants ---------- *)
Definition term_lookup (x : value) (tb : symtab) : res value :=
  match x with VSym s _ => get_symbol s tb | _ => Ok x end.

Lemma num_of_result_val z m n : num_of_result z m = Ok n -> num_val n = z /\ (-32768 <= z <= 65535)%Z.
Proof.
  unfold num_of_result, num_val. destruct (z <? 0)%Z eqn:Ez.
  - apply Z.ltb_lt in Ez. destruct (32768 <? Z.to_N (- z)) eqn:E; [discriminate|]. intros H. inversion H; subst. cbn.
    apply N.ltb_ge in E. lia.
  - apply Z.ltb_ge in Ez. destruct (65535 <? Z.to_N z) eqn:E; [discriminate|]. destruct (post_init _ _ _).
    intros H. inversion H; subst. cbn. apply N.ltb_ge in E. lia.
Qed.

Lemma num_of_result_rejects z m : (z < -32768 \/ 65535 < z)%Z -> num_of_result z m = Diag 20.
Proof.
  intros H. unfold num_of_result, VTE. destruct (z <? 0)%Z eqn:Ez.
  - apply Z.ltb_lt in Ez. destruct (N.ltb_spec 32768 (Z.to_N (- z))); [reflexivity | lia].
  - apply Z.ltb_ge in Ez. destruct (N.ltb_spec 65535 (Z.to_N z)); [reflexivity | lia].
Qed.

(* the value of a resolved numeric operand is independent of how it was spelled: only v_signed is read *)
Theorem constant_expression_value l r op m tb a b v :
  term_lookup l tb = Ok (VNum a) -> term_lookup r tb = Ok (VNum b) ->
  resolve_expr l op r m tb = Ok v ->
  exists n z, v = VNum n /\ arith op (num_val a) (num_val b) = Some z /\ num_val n = z /\ (-32768 <= z <= 65535)%Z.
Proof.
  unfold term_lookup, resolve_expr. intros Hl Hr H. rewrite Hl, Hr in H. cbn [bind v_is_numeric andb] in H.
  rewrite expr_arith_is_arith in H. change (v_signed (VNum a)) with (num_val a) in H. change (v_signed (VNum b)) with (num_val b) in H.
  destruct (arith op (num_val a) (num_val b)) as [z|]; [|discriminate]. cbn [bind] in H.
  apply bind_ok in H as [n [Hn H]]. inversion H; subst v. destruct (num_of_result_val _ _ _ Hn) as [Hv Hrange].
  exists n, z. auto.
Qed.

Theorem constant_division_by_zero_rejected l r op m tb a b :
  term_lookup l tb = Ok (VNum a) -> term_lookup r tb = Ok (VNum b) -> arith op (num_val a) (num_val b) = None ->
  resolve_expr l op r m tb = Diag 23.
Proof.
  unfold term_lookup, resolve_expr. intros Hl Hr Ha. rewrite Hl, Hr. cbn [bind v_is_numeric andb].
  rewrite expr_arith_is_arith. change (v_signed (VNum a)) with (num_val a). change (v_signed (VNum b)) with (num_val b).
  now rewrite Ha.
Qed.

Theorem constant_out_of_range_rejected l r op m tb a b z :
  term_lookup l tb = Ok (VNum a) -> term_lookup r tb = Ok (VNum b) -> arith op (num_val a) (num_val b) = Some z ->
  (z < -32768 \/ 65535 < z)%Z -> resolve_expr l op r m tb = Diag 20.
Proof.
  unfold term_lookup, resolve_expr. intros Hl Hr Ha Hz. rewrite Hl, Hr. cbn [bind v_is_numeric andb].
  rewrite expr_arith_is_arith. change (v_signed (VNum a)) with (num_val a). change (v_signed (VNum b)) with (num_val b).
  rewrite Ha. cbn [bind]. now rewrite num_of_result_rejects.
Qed.

(* a use of an EQU constant sees the defined value with its sign (false upstream, repair F38) *)
Theorem symbol_use_has_defined_value s tb n v :
  lookup s tb = Some (VNum n) -> resolve_symbol s tb = Ok v -> exists n', v = VNum n' /\ num_val n' = num_val n.
Proof.
  unfold resolve_symbol, get_symbol. intros Hl H. rewrite Hl in H. cbn [bind] in H.
  apply bind_ok in H as [n' [Hn H]]. inversion H; subst v. exists n'. split; [reflexivity|].
  unfold num_of_int in Hn. destruct (negb (n_neg n) && _); [discriminate|]. destruct (post_init _ _ _). inversion Hn; subst.
  unfold num_val. cbn. destruct (n_neg n); cbn; [|reflexivity]. destruct (N.eqb_spec (n_int n) 0) as [E|E]; cbn; [rewrite E|]; reflexivity.
Qed.

(* ---------- (3) labels ---------- *)
Definition term_number (ss : list stmt) (v : value) : res Z := term_value ss v.

Theorem label_expression_value ss l op r a b :
  term_value ss l = Ok a -> term_value ss r = Ok b ->
  calc_offset_z ss l op r = match arith op a b with Some z => Ok z | None => Diag 2 end.
Proof.
  intros Hl Hr. unfold calc_offset_z, offset_arith, arith. rewrite Hl, Hr. cbn [bind].
  destruct (op =? 43); [reflexivity|]. destruct (op =? 45); [reflexivity|]. destruct (op =? 42); [reflexivity|].
  destruct (b =? 0)%Z; reflexivity.
Qed.

Theorem label_term_is_its_address ss k t a : nth_stmt ss k = Some t -> cp_addr (s_pkg t) = VNum a ->
  term_value ss (VAddr k) = Ok (Z.of_N (n_int a)).
Proof. intros H1 H2. unfold term_value, addr_of. rewrite H1, H2. reflexivity. Qed.

Theorem constant_term_is_its_number ss n : term_value ss (VNum n) = Ok (num_val n).
Proof. reflexivity. Qed.

(* a term that is itself label arithmetic (an EQU symbol defined by it) stands for that arithmetic on ITS terms - not for 0
   (false upstream: repair F56) - whenever the result is a value the assembler can hold (at most 65535) *)
Theorem nested_term_is_its_value ss l op r m a b z :
  term_value ss l = Ok a -> term_value ss r = Ok b -> arith op a b = Some z -> (z <= 65535)%Z ->
  term_value ss (VExpr l op r m true) = Ok z.
Proof.
  intros Hl Hr Ha Hz. cbn [term_value]. rewrite Hl, Hr. cbn [bind].
  assert (Ho : offset_arith op a b = Ok z).
  { unfold offset_arith, arith in *. destruct (op =? 43); [congruence|]. destruct (op =? 45); [congruence|]. destruct (op =? 42); [congruence|].
    destruct (b =? 0)%Z; [discriminate | congruence]. }
  rewrite Ho. cbn [bind]. unfold num_of_Z, num_of_int.
  assert (E : (negb (z <? 0)%Z && (65535 <? Z.to_N (Z.abs z))) = false).
  { destruct (z <? 0)%Z eqn:Ez; [reflexivity|]. cbn [negb andb]. apply N.ltb_ge. apply Z.ltb_ge in Ez. lia. }
  rewrite E. destruct (post_init _ _ _) as [h m']. cbn [as_translation_error bind n_neg n_int]. f_equal.
  destruct (z <? 0)%Z eqn:Ez; cbn [andb].
  - apply Z.ltb_lt in Ez. assert (En : (Z.to_N (Z.abs z) =? 0) = false) by (apply N.eqb_neq; lia). rewrite En. cbn [negb]. lia.
  - apply Z.ltb_ge in Ez. lia.
Qed.

(* ---------- (4) what is emitted ---------- *)
Lemma calc_offset_value ss l op r v : calc_offset ss l op r = Ok v ->
  exists z, calc_offset_z ss l op r = Ok z /\ value_number v = z /\ v_is_numeric v = true.
Proof.
  unfold calc_offset. intros H. apply bind_ok in H as [z [Hz H]]. apply bind_ok in H as [n [Hn H]]. inversion H; subst v.
  exists z. split; [exact Hz|]. split; [|reflexivity]. apply as_te_ok in Hn.
  change (value_number (VNum n)) with (num_val n). eapply num_of_Z_val; eauto.
Qed.

(* a statement whose operand is a label expression at a 16-bit position (extended, 16-bit immediate,
   [extended indirect], FDB): the two operand bytes are the arithmetic value modulo 65536, high byte first;
   a value outside -32768..65535 is rejected *)
Theorem label_expression_16bit_emits ss this s s' l op r m :
  is_relative_op (s_operand s) = false -> operand_value (s_operand s) = VExpr l op r m true ->
  cp_needs (s_pkg s) = false ->
  (match s_operand s with OImmediate _ => imm_digits (s_instr s) | OPseudo _ _ => if Tables.is_multi_byte (s_instr s) then 2 else 4
                        | ODirect _ => 2 | _ => 4 end) = 4 ->
  (match s_operand s with ODirect _ => false | _ => true end) = true ->
  fix_stmt ss this s = Ok s' ->
  exists z, calc_offset_z ss l op r = Ok z /\ (-32768 <= z <= 65535)%Z /\
            emit_value (cp_add (s_pkg s')) = Ok [Z.to_N ((z mod 65536) / 256); Z.to_N (z mod 256)].
Proof.
  intros Hrel Hov Hneeds Hdig Hsig H. unfold fix_stmt in H. rewrite Hrel, Hov, Hdig, Hsig in H.
  unfold addr_offset in H. rewrite Hneeds in H. cbn [andb] in H.
  apply bind_ok in H as [s1 [H1 H]]. inversion H; subst s'. clear H.
  apply bind_ok in H1 as [a [Ha H1]]. apply bind_ok in H1 as [a' [Hf H1]]. inversion H1; subst s1. clear H1.
  apply as_te_ok in Hf. destruct (calc_offset_value _ _ _ _ _ Ha) as (z & Hz & Hv & _).
  destruct (fit_value_4_emits _ _ Hf) as (Hr & He). rewrite Hv in *.
  exists z. split; [exact Hz|]. split; [exact Hr|]. unfold with_add, set_pkg. cbn [s_pkg cp_add]. exact He.
Qed.

Theorem label_expression_16bit_rejects ss this s l op r m z :
  is_relative_op (s_operand s) = false -> operand_value (s_operand s) = VExpr l op r m true ->
  (match s_operand s with OImmediate _ => imm_digits (s_instr s) | OPseudo _ _ => if Tables.is_multi_byte (s_instr s) then 2 else 4
                        | ODirect _ => 2 | _ => 4 end) = 4 ->
  calc_offset_z ss l op r = Ok z -> (z < -32768 \/ 65535 < z)%Z ->
  fix_stmt ss this s = Diag 2.
Proof.
  intros Hrel Hov Hdig Hz Hout. unfold fix_stmt. rewrite Hrel, Hov, Hdig.
  unfold calc_offset. rewrite Hz. cbn [bind].
  destruct (num_of_Z z (Some 4) MExtended) as [n| | | |] eqn:En; cbn [as_translation_error bind]; try reflexivity.
  - (* the number exists (z >= -65535...): fit_value rejects it *)
    assert (Hv : value_number (VNum n) = z) by (change (value_number (VNum n)) with (num_val n); eapply num_of_Z_val; eauto).
    set (sg := match s_operand s with ODirect _ => false | _ => true end).
    assert (Hf : fit_value (VNum n) 4 sg = Diag 21).
    { unfold fit_value. fold (value_number (VNum n)). rewrite Hv. change (16 ^ Z.of_N 4)%Z with 65536%Z.
      assert (E : ((65536 <=? z) || (z <? (if sg then - (65536 / 2) else 0)))%Z = true).
      { apply orb_true_iff. destruct Hout as [Hlo | Hhi].
        - right. apply Z.ltb_lt. destruct sg; change (- (65536 / 2))%Z with (-32768)%Z; lia.
        - left. apply Z.leb_le. lia. }
      now rewrite E. }
    rewrite Hf. reflexivity.
  - unfold num_of_Z, num_of_int in En. destruct (negb _ && _); [|destruct (post_init _ _ _)]; discriminate.
  - unfold num_of_Z, num_of_int in En. destruct (negb _ && _); [|destruct (post_init _ _ _)]; discriminate.
  - unfold num_of_Z, num_of_int in En. destruct (negb _ && _); [|destruct (post_init _ _ _)]; discriminate.
Qed.

(* ---------- the 8-bit operand positions: 8-bit immediate, forced direct, FCB ---------- *)
Theorem label_expression_8bit_emits ss this s s' l op r m :
  is_relative_op (s_operand s) = false -> operand_value (s_operand s) = VExpr l op r m true ->
  cp_needs (s_pkg s) = false ->
  (match s_operand s with OImmediate _ => imm_digits (s_instr s) | OPseudo _ _ => if Tables.is_multi_byte (s_instr s) then 2 else 4
                        | ODirect _ => 2 | _ => 4 end) = 2 ->
  fix_stmt ss this s = Ok s' ->
  exists z, calc_offset_z ss l op r = Ok z /\ (-128 <= z <= 255)%Z /\
            ((match s_operand s with ODirect _ => false | _ => true end) = false -> (0 <= z)%Z) /\
            emit_value (cp_add (s_pkg s')) = Ok [Z.to_N (z mod 256)].
Proof.
  intros Hrel Hov Hneeds Hdig H. unfold fix_stmt in H. rewrite Hrel, Hov, Hdig in H.
  unfold addr_offset in H. rewrite Hneeds in H. cbn [andb] in H.
  apply bind_ok in H as [s1 [H1 H]]. inversion H; subst s'. clear H.
  apply bind_ok in H1 as [a [Ha H1]]. apply bind_ok in H1 as [a' [Hf H1]]. inversion H1; subst s1. clear H1.
  apply as_te_ok in Hf. destruct (calc_offset_value _ _ _ _ _ Ha) as (z & Hz & Hv & _).
  destruct (fit_value_2_emits _ _ _ Hf) as (Hr & Hs & He). rewrite Hv in *.
  exists z. split; [exact Hz|]. split; [exact Hr|]. split; [exact Hs|]. unfold with_add, set_pkg. cbn [s_pkg cp_add]. exact He.
Qed.

Theorem label_expression_8bit_rejects ss this s l op r m z :
  is_relative_op (s_operand s) = false -> operand_value (s_operand s) = VExpr l op r m true ->
  (match s_operand s with OImmediate _ => imm_digits (s_instr s) | OPseudo _ _ => if Tables.is_multi_byte (s_instr s) then 2 else 4
                        | ODirect _ => 2 | _ => 4 end) = 2 ->
  calc_offset_z ss l op r = Ok z -> (z < -128 \/ 255 < z)%Z ->
  fix_stmt ss this s = Diag 2.
Proof.
  intros Hrel Hov Hdig Hz Hout. unfold fix_stmt. rewrite Hrel, Hov, Hdig.
  unfold calc_offset. rewrite Hz. cbn [bind].
  destruct (num_of_Z z (Some 4) MExtended) as [n| | | |] eqn:En; cbn [as_translation_error bind]; try reflexivity.
  - assert (Hv : value_number (VNum n) = z) by (change (value_number (VNum n)) with (num_val n); eapply num_of_Z_val; eauto).
    set (sg := match s_operand s with ODirect _ => false | _ => true end).
    assert (Hf : fit_value (VNum n) 2 sg = Diag 21).
    { unfold fit_value. fold (value_number (VNum n)). rewrite Hv. change (16 ^ Z.of_N 2)%Z with 256%Z.
      assert (E : ((256 <=? z) || (z <? (if sg then - (256 / 2) else 0)))%Z = true).
      { apply orb_true_iff. destruct Hout as [Hlo | Hhi].
        - right. apply Z.ltb_lt. destruct sg; change (- (256 / 2))%Z with (-128)%Z; lia.
        - left. apply Z.leb_le. lia. }
      now rewrite E. }
    rewrite Hf. reflexivity.
  - unfold num_of_Z, num_of_int in En. destruct (negb _ && _); [|destruct (post_init _ _ _)]; discriminate.
  - unfold num_of_Z, num_of_int in En. destruct (negb _ && _); [|destruct (post_init _ _ _)]; discriminate.
  - unfold num_of_Z, num_of_int in En. destruct (negb _ && _); [|destruct (post_init _ _ _)]; discriminate.
Qed.
