(* C04 — Symbols and two-term expressions evaluate to their arithmetic value everywhere. *)
From V Require Import Base.
From V.model Require Import MText MValues MOperands MProgram.
From V.proofs Require Import PRender PC03 PC04.
From V.gen Require Tables.
From Coq Require String.
Import String.StringSyntax.
Local Open Scope N_scope.

(* (a) the arithmetic: + - * and /, where / truncates toward zero (the magnitude is the floor of the quotient
   of the magnitudes, the sign is the product of the signs) and a zero divisor has no value *)
Theorem C04_arithmetic_is_implemented :
  forall op a b, expr_arith op a b = match arith op a b with Some z => Ok z | None => Diag 23 end.
Proof. exact expr_arith_is_arith. Qed.
Print Assumptions C04_arithmetic_is_implemented.

Theorem C04_division_truncates :
  forall a b, b <> 0%Z -> arith 47 a b = Some (Z.sgn a * Z.sgn b * (Z.abs a / Z.abs b))%Z.
Proof. exact truncating_division. Qed.
Print Assumptions C04_division_truncates.

(* (b) an expression whose two terms are constants - literals in any spelling or EQU symbols, wherever in the
   program they are defined (the symbol table is complete before any operand is resolved) - resolves to the
   number that arithmetic gives.  Only the signed value of each term is read: the spelling (number of digits,
   radix, size hint, addressing-mode hint) of a term cannot change the result. *)
Theorem C04_constant_expression_value :
  forall l r op m tb a b v,
    term_lookup l tb = Ok (VNum a) -> term_lookup r tb = Ok (VNum b) ->
    resolve_expr l op r m tb = Ok v ->
    exists n z, v = VNum n /\ arith op (num_val a) (num_val b) = Some z /\ num_val n = z /\ (-32768 <= z <= 65535)%Z.
Proof. exact constant_expression_value. Qed.
Print Assumptions C04_constant_expression_value.

(* division by zero is rejected with a diagnostic ... *)
Theorem C04_constant_division_by_zero_rejected :
  forall l r op m tb a b,
    term_lookup l tb = Ok (VNum a) -> term_lookup r tb = Ok (VNum b) -> arith op (num_val a) (num_val b) = None ->
    resolve_expr l op r m tb = Diag 23.
Proof. exact constant_division_by_zero_rejected. Qed.
Print Assumptions C04_constant_division_by_zero_rejected.

(* ... and so is a result outside -32768..65535 *)
Theorem C04_constant_out_of_range_rejected :
  forall l r op m tb a b z,
    term_lookup l tb = Ok (VNum a) -> term_lookup r tb = Ok (VNum b) -> arith op (num_val a) (num_val b) = Some z ->
    (z < -32768 \/ 65535 < z)%Z -> resolve_expr l op r m tb = Diag 20.
Proof. exact constant_out_of_range_rejected. Qed.
Print Assumptions C04_constant_out_of_range_rejected.

(* a use of an EQU constant sees the defined value WITH ITS SIGN (false upstream: V EQU -5 / LDA #V -> 86 05,
   repair F38) *)
Theorem C04_symbol_use_has_defined_value :
  forall s tb n v, lookup s tb = Some (VNum n) -> resolve_symbol s tb = Ok v ->
    exists n', v = VNum n' /\ num_val n' = num_val n.
Proof. exact symbol_use_has_defined_value. Qed.
Print Assumptions C04_symbol_use_has_defined_value.

(* (c) an expression that contains a label is evaluated after layout by the same arithmetic, each label
   standing for the address of its statement and each constant for its signed value (false upstream: the
   magnitude of a negative constant was used, repair F31; floats, repair F30) *)
Theorem C04_label_expression_value :
  forall ss l op r a b, term_value ss l = Ok a -> term_value ss r = Ok b ->
    calc_offset_z ss l op r = match arith op a b with Some z => Ok z | None => Diag 2 end.
Proof. exact label_expression_value. Qed.
Print Assumptions C04_label_expression_value.

Theorem C04_label_term_is_its_address :
  forall ss k t a, nth_stmt ss k = Some t -> cp_addr (s_pkg t) = VNum a ->
    term_value ss (VAddr k) = Ok (Z.of_N (n_int a)).
Proof. exact label_term_is_its_address. Qed.
Print Assumptions C04_label_term_is_its_address.

(* a term that is itself label arithmetic - an EQU symbol defined by it: X EQU L+2 ... LDX #L+X - stands for that arithmetic
   on ITS terms, to any depth, whenever the result is a value the assembler can hold (false upstream: read as 0, repair F56) *)
Theorem C04_nested_label_term_value :
  forall ss l op r m a b z,
    term_value ss l = Ok a -> term_value ss r = Ok b -> arith op a b = Some z -> (z <= 65535)%Z ->
    term_value ss (VExpr l op r m true) = Ok z.
Proof. exact nested_term_is_its_value. Qed.
Print Assumptions C04_nested_label_term_value.

(* (d) at a 16-bit operand position - extended, 16-bit immediate, [extended indirect], FDB - the two operand
   bytes of a label expression are its value modulo 65536, high byte first, when the value lies in
   -32768..65535, and the statement is rejected otherwise: never anything else.
   The 8-bit positions follow in (e); index offsets and PCR targets are C01/C03 theorems. *)
Theorem C04_label_expression_16bit_emits :
  forall ss this s s' l op r m,
    is_relative_op (s_operand s) = false -> operand_value (s_operand s) = VExpr l op r m true ->
    cp_needs (s_pkg s) = false ->
    (match s_operand s with OImmediate _ => imm_digits (s_instr s) | OPseudo _ _ => if Tables.is_multi_byte (s_instr s) then 2 else 4
                          | ODirect _ => 2 | _ => 4 end) = 4 ->
    (match s_operand s with ODirect _ => false | _ => true end) = true ->
    fix_stmt ss this s = Ok s' ->
    exists z, calc_offset_z ss l op r = Ok z /\ (-32768 <= z <= 65535)%Z /\
              emit_value (cp_add (s_pkg s')) = Ok [Z.to_N ((z mod 65536) / 256); Z.to_N (z mod 256)].
Proof. exact label_expression_16bit_emits. Qed.
Print Assumptions C04_label_expression_16bit_emits.

Theorem C04_label_expression_16bit_rejects :
  forall ss this s l op r m z,
    is_relative_op (s_operand s) = false -> operand_value (s_operand s) = VExpr l op r m true ->
    (match s_operand s with OImmediate _ => imm_digits (s_instr s) | OPseudo _ _ => if Tables.is_multi_byte (s_instr s) then 2 else 4
                          | ODirect _ => 2 | _ => 4 end) = 4 ->
    calc_offset_z ss l op r = Ok z -> (z < -32768 \/ 65535 < z)%Z ->
    fix_stmt ss this s = Diag 2.
Proof. exact label_expression_16bit_rejects. Qed.
Print Assumptions C04_label_expression_16bit_rejects.

(* (e) at an 8-bit operand position - 8-bit immediate, forced direct, a single FCB element - the one operand byte of a
   label expression is its value modulo 256 when the value lies in -128..255 (0..255 for a direct-page address), and
   the statement is rejected otherwise: never anything else *)
Theorem C04_label_expression_8bit_emits :
  forall ss this s s' l op r m,
    is_relative_op (s_operand s) = false -> operand_value (s_operand s) = VExpr l op r m true ->
    cp_needs (s_pkg s) = false ->
    (match s_operand s with OImmediate _ => imm_digits (s_instr s) | OPseudo _ _ => if Tables.is_multi_byte (s_instr s) then 2 else 4
                          | ODirect _ => 2 | _ => 4 end) = 2 ->
    fix_stmt ss this s = Ok s' ->
    exists z, calc_offset_z ss l op r = Ok z /\ (-128 <= z <= 255)%Z /\
              ((match s_operand s with ODirect _ => false | _ => true end) = false -> (0 <= z)%Z) /\
              emit_value (cp_add (s_pkg s')) = Ok [Z.to_N (z mod 256)].
Proof. exact label_expression_8bit_emits. Qed.
Print Assumptions C04_label_expression_8bit_emits.

Theorem C04_label_expression_8bit_rejects :
  forall ss this s l op r m z,
    is_relative_op (s_operand s) = false -> operand_value (s_operand s) = VExpr l op r m true ->
    (match s_operand s with OImmediate _ => imm_digits (s_instr s) | OPseudo _ _ => if Tables.is_multi_byte (s_instr s) then 2 else 4
                          | ODirect _ => 2 | _ => 4 end) = 2 ->
    calc_offset_z ss l op r = Ok z -> (z < -128 \/ 255 < z)%Z ->
    fix_stmt ss this s = Diag 2.
Proof. exact label_expression_8bit_rejects. Qed.
Print Assumptions C04_label_expression_8bit_rejects.

Definition t (s : String.string) : text := text_of_string s.
Local Open Scope string_scope.

(* non-vacuity, through the whole assembler: every spelling of 7, an EQU defined after its use, a negative EQU
   with truncating division, a label before and after its use, an EQU defined by label arithmetic, a symbol as
   a data element, division by zero and an overflowing product rejected *)
Example C04_nonvacuous :
  (exists r, assemble [] [t " ORG $1000
"; t "START LDX #K+$07
"; t " LDX #K+%00000111
"; t " LDX #K+7
"; t " LDD #NEG/2
"; t " LDX #START+3
"; t " LDX #LATER-1
"; t " JMP [START+2]
"; t "R EQU START+5
"; t " FDB R
"; t "LATER FDB K*2
"; t "K EQU 300
"; t "NEG EQU -7
"] = Ok r /\
    r_image r = [142; 1; 51; 142; 1; 51; 142; 1; 51; 204; 255; 253; 142; 16; 3; 142; 16; 23; 110; 159; 16; 2; 16; 5; 2; 88]%N) /\
  assemble [] [t " LDX #5/0
"] = Diag 2 /\
  assemble [] [t "L NOP
"; t " LDX #L/0
"] = Diag 2 /\
  assemble [] [t " LDX #300*300
"] = Diag 2.
Proof. split; [eexists; split; vm_compute; reflexivity|]. repeat split; vm_compute; reflexivity. Qed.
