(* C10 — An existing target file is never modified unless append applies to it.
   This file holds ONLY the property theorems, closed by [exact], Print Assumptions, and a
   non-vacuity Example.  Model: MVirtualFile.store = open_virtual_file + add_coco_file* +
   save_virtual_file over the content of the target path (None = the path does not exist);
   PVirtualFile.invoke = one `try: ... except: print` block of assembler.py / one conversion block of
   file_util.py over the host file system (PVirtualFile.asm_step_invoke, conv_step_invoke).
   PARTIAL in one respect, stated here once: "the existing content is an image of the kind being
   written" is what the TOOL's readers say (MVirtualFile.sniff_kind), not the format specification.
   After the repair of get_coco_files (content in which the tape reader finds no file is a cassette
   only when it is empty) the two are related as follows, each direction proved below:
     * refused for sure (C10_no_tape_header_refused, C10_short_content_never_disk): non-empty content
       shorter than a disk image without any tape name-file header $55 $3C $00 — text, machine code,
       arbitrary bytes — is never written by --to_cas / --to_dsk, with or without --append; content
       shorter (or longer) than 161,280 bytes is never taken for a disk;
     * necessary for a write (C10_cassette_write_needs_tape_file, C10_disk_write_needs_disk_image): the
       old content is empty or the tape reader finds at least one complete file in it; resp. it has
       exactly 161,280 bytes and the disk reader lists it without error;
     * sufficient (C10_wellformed_tape_is_recognised): every well-formed tape stream (any leader / gap
       lengths, any 1..255 chunking) with at least one file, no empty-data file, below 161,280 bytes is
       read as a CASSETTE, so --to_cas --append onto it proceeds.
   What still differs from the specification: (a) the tape reader verifies no checksum and skips
   garbage between blocks, so a damaged stream in which it still finds a file counts as a cassette;
   (b) known finding tape_empty_file: a tape whose only files have empty data lists as [] and is now
   BINARY (append refused — the safe direction), and an empty-data file in the middle truncates the
   listing, so an append rewrites the tape without the later files (C09's business); (c) known finding
   tape_sniffed_as_disk: a tape of >= 161,280 bytes is shown to the disk reader first (Unmodelled in
   MDisk.list_files above that size).  The harness judges the old content with the spec parsers.
   That write_binary_contents is reached only on the written path and writes the whole buffer is
   observed by the harness, not proved. *)
From V Require Import Base.
From V.spec Require Import SpecTape SpecDisk.
From V.model Require Import MCassette MDisk MVirtualFile.
From V.proofs Require Import PCassetteR PDiskWrite PVirtualFile.
Local Open Scope N_scope.

(* (1) bytes are written only if the path was absent, or append was given AND the tool reads the old
   content as an image of the requested kind. *)
Theorem C10_modified_only_if_partial :
  forall (req : vkind) (append : bool) (old : option (list byte)) (new : list cocofile) (img : list byte),
    store req append old new = Ok (Some img) ->
    old = None \/ (append = true /\ exists o, old = Some o /\ sniff_kind o = Ok req).
Proof. exact store_modifies_only_if. Qed.
Print Assumptions C10_modified_only_if_partial.

(* (1') hence: without --append an existing path is refused whatever it holds, and content the tool
   reads as another kind is refused even with --append; the refusal carries a diagnostic. *)
Theorem C10_no_append_refused :
  forall req o new, exists e, classify (store req false (Some o) new) = inr e.
Proof. exact store_no_append_refused. Qed.
Print Assumptions C10_no_append_refused.

Theorem C10_other_kind_refused :
  forall req k append o new, sniff_kind o = Ok k -> k <> req ->
    exists e, classify (store req append (Some o) new) = inr e.
Proof. exact store_other_kind_refused. Qed.
Print Assumptions C10_other_kind_refused.

(* (1'') the tool's reading, made explicit *)
Theorem C10_cassette_write_needs_tape_file :
  forall append o new img,
    store KCas append (Some o) new = Ok (Some img) ->
    append = true /\ (o = [] \/ exists cs, MCassette.list_files o = Ok cs /\ cs <> []).
Proof. exact store_cassette_needs_tape_file. Qed.
Print Assumptions C10_cassette_write_needs_tape_file.

Theorem C10_disk_write_needs_disk_image :
  forall append (o : list byte) new img,
    store KDsk append (Some o) new = Ok (Some img) ->
    append = true /\ N.of_nat (length o) = IMAGE_SIZE /\ exists ds, MDisk.list_files o = Ok ds.
Proof. exact store_disk_needs_disk_image. Qed.
Print Assumptions C10_disk_write_needs_disk_image.

(* the repaired defect: non-empty content below the size of a disk image that holds no tape name-file
   header anywhere is refused by --to_cas and --to_dsk whatever the append flag *)
Theorem C10_no_tape_header_refused :
  forall req append (o : list byte) new,
    req <> KBin -> o <> [] -> N.of_nat (length o) < IMAGE_SIZE -> seek [85; 60; 0] o = None ->
    exists e, classify (store req append (Some o) new) = inr e.
Proof. exact store_no_header_refused. Qed.
Print Assumptions C10_no_tape_header_refused.

Theorem C10_short_content_never_disk :
  forall append (o : list byte) new,
    N.of_nat (length o) < IMAGE_SIZE -> exists e, classify (store KDsk append (Some o) new) = inr e.
Proof. exact store_short_never_disk. Qed.
Print Assumptions C10_short_content_never_disk.

Theorem C10_wellformed_tape_is_recognised :
  forall (o : list byte) cs,
    wf_stream o cs -> cs <> [] -> Forall (fun c => c_data c <> []) cs -> N.of_nat (length o) < IMAGE_SIZE ->
    sniff o = Ok (map of_cfile cs, KCas).
Proof. exact sniff_wellformed_stream. Qed.
Print Assumptions C10_wellformed_tape_is_recognised.

(* (2)+(3) one CLI save step: EITHER refused — the file system afterwards is the very same function
   and the output is one "Unable to save ... file:" event carrying the diagnostic — OR written —
   the step was allowed by (1), only the target path changed, and the bytes now at the path are a
   complete image of the requested kind built from scratch from (files read from the old content)
   ++ (new files):  MCassette.write ... (parsing under SpecTape.parse to exactly those files, by C14),
   MDisk.image_of of a successful add_files (passing SpecDisk.fsck and listing exactly those files,
   by C08/C07), or the concatenated data. *)
Theorem C10_step_refused_untouched_or_complete_image :
  forall (fs : hostfs) (i : invocation), step_ok fs i (fst (invoke fs i)) (snd (invoke fs i)).
Proof. exact invoke_ok. Qed.
Print Assumptions C10_step_refused_untouched_or_complete_image.

(* (4) the same along ANY sequence of invocations (induction over the list) ... *)
Theorem C10_sequences :
  forall (l : list invocation) (fs : hostfs),
    Forall (fun s => let '(a, i, b, ev) := s in step_ok a i b ev) (steps fs l).
Proof. exact invoke_all_steps_ok. Qed.
Print Assumptions C10_sequences.

(* ... and its consequence for a whole run: content that no invocation may legitimately touch (each
   invocation aimed at its path either lacks --append or asks for a kind the content is not read as)
   is byte-for-byte what it was after the whole sequence. *)
Theorem C10_protected_content_survives :
  forall (l : list invocation) (fs : hostfs) (p : path) (c : list byte),
    fs p = Some c ->
    Forall (fun i => i_path i = p -> i_append i = false \/ sniff_kind c <> Ok (i_kind i)) l ->
    fst (invoke_all fs l) p = Some c.
Proof. exact protected_content_survives. Qed.
Print Assumptions C10_protected_content_survives.

(* (5) the whole save part of assembler.py (MVirtualFile.asm_save: --to_bin, --to_cas, --to_dsk in one run,
   name choice, no-name guard, one try/except per switch) is such a sequence (PVirtualFile.asm_save_invoke_all),
   so: an existing file is byte for byte what it was unless --append was given AND a switch of the very
   kind the tool reads the file as points at it.  (file_util.py: each conversion block changes the file
   system exactly as one invocation does — PVirtualFile.conv_step_invoke, and C16_file_util_is_convert.) *)
Theorem C10_assembler_protects_existing_files :
  forall (fs : hostfs) (a : asm_args) (p : program) (q : path) (c : list byte),
    fs q = Some c ->
    (s_append a = false \/ forall k, asm_switch a k = Some q -> sniff_kind c <> Ok k) ->
    fst (asm_save fs a p) q = Some c.
Proof. exact asm_save_protects. Qed.
Print Assumptions C10_assembler_protects_existing_files.

(* non-vacuity: a target holding one tape file.  Without append: refused (FileExistsError = Diag 21);
   --to_dsk with append: refused (type mismatch = Diag 20); --to_cas with append: written, and the
   new tape holds the old file then the new one.  A target holding the text "hello": --to_cas --append
   is refused (not a cassette any more), --to_bin --append replaces it; an EMPTY file is a cassette. *)
Example C10_nonvacuous :
  let a := {| f_name := [65]; f_ext := []; f_type := 2; f_dtype := 0; f_load := 3584; f_exec := 3584; f_data := [1;2;3] |} in
  let b := {| f_name := [104;105]; f_ext := ext_bin; f_type := 2; f_dtype := 0; f_load := 16; f_exec := 16; f_data := [57] |} in
  let old := MCassette.write [to_cfile a] in
  store KCas false (Some old) [b] = Diag 21 /\
  store KDsk true (Some old) [b] = Diag 20 /\
  store KCas true (Some old) [b] = Ok (Some (MCassette.write [to_cfile a; to_cfile b])) /\
  store KCas true (Some [104;101;108;108;111]) [b] = Diag 20 /\
  store KBin true (Some [104;101;108;108;111]) [b] = Ok (Some [57]) /\
  store KCas true (Some []) [b] = Ok (Some (MCassette.write [to_cfile b])) /\
  store KBin false None [b] = Ok (Some [57]).
Proof. vm_compute. repeat split; reflexivity. Qed.
