(* C12 — No accepted statement ever yields a malformed or silently truncated instruction. *)
From V Require Import Base.
From V.spec Require Import Spec6809.
From V.model Require Import MText MValues MOperands MProgram.
From V.proofs Require Import PRender PC12 PSize.
From V.gen Require Tables.
From Coq Require String.
Import String.StringSyntax.
Local Open Scope N_scope.

(* Every theorem of Properties/C01.v already states, for its operand class, that the emitted bytes decode
   (datasheet decoder) as EXACTLY ONE instruction of the statement's mnemonic with nothing left over and
   that their count equals the reserved size; they are restated here in the C12 reading, followed by what
   must be REJECTED.  The quantifier "any operand text whatsoever" is reached because these theorems
   quantify over the operand CLASSES and VALUES that Operand.create_from_str can produce (the model
   MOperands.create_operand, total on all texts, tied to the code by the correspondence fuzz over mutated
   operand strings), never over well-formed source only. *)

Definition wellformed (i : irow) (p : codepkg) : Prop :=
  exists bs ins, final_bytes p = Ok bs /\ N.of_nat (length bs) = cp_size p /\
                 decode bs = Some (ins, []) /\ i_mnem ins = canon (mnem i).

Theorem C12_inherent : forall i p, row_ok i = true -> Tables.is_pseudo i = false ->
  translate_operand OInherent i = Ok p -> wellformed i p.
Proof. intros i p Hr Hp H. destruct (inherent_decodes i p Hr Hp H) as (bs & A & B & C). exists bs. eexists. eauto. Qed.
Print Assumptions C12_inherent.

Theorem C12_immediate : forall i p v, row_ok i = true -> Tables.is_pseudo i = false -> Tables.is_special i = false ->
  v_is_numeric v = true -> translate_operand (OImmediate v) i = Ok p -> wellformed i p.
Proof.
  intros i p v Hr Hp Hs Hn H. destruct (immediate_decodes i p v Hr Hp Hs Hn H) as (bs & A & B & [[_ C] | [_ C]]);
    exists bs; eexists; eauto.
Qed.
Print Assumptions C12_immediate.

Theorem C12_direct : forall i p v, row_ok i = true -> Tables.is_pseudo i = false -> v_is_numeric v = true ->
  translate_operand (ODirect v) i = Ok p -> wellformed i p.
Proof. intros i p v Hr Hp Hn H. destruct (direct_decodes i p v Hr Hp Hn H) as (_ & bs & A & B & C). exists bs. eexists. eauto. Qed.
Print Assumptions C12_direct.

Theorem C12_extended : forall i p v, row_ok i = true -> Tables.is_pseudo i = false -> v_is_numeric v = true ->
  translate_operand (OExtended v) i = Ok p -> wellformed i p.
Proof. intros i p v Hr Hp Hn H. destruct (extended_decodes i p v Hr Hp Hn H) as (_ & bs & A & B & C). exists bs. eexists. eauto. Qed.
Print Assumptions C12_extended.

Theorem C12_extended_indirect : forall i p s v l r, row_ok i = true -> Tables.is_pseudo i = false -> v_is_numeric v = true ->
  translate_operand (OExtIdx s v l r) i = Ok p -> wellformed i p.
Proof. intros i p s v l r Hr Hp Hn H. destruct (extended_indirect_decodes i p s v l r Hr Hp Hn H) as (_ & bs & A & B & C). exists bs. eexists. eauto. Qed.
Print Assumptions C12_extended_indirect.

Theorem C12_indexed_constant_offsets : forall i p n nm rg ind, row_ok i = true -> Tables.is_pseudo i = false -> In (nm, rg) reg_names ->
  n_int n <> 0 -> (ind = false -> negb (is_4_bit n) = true) -> n_int n <= 32768 ->
  translate_indexed ind (LVal (VNum n)) nm i = Ok p -> wellformed i p.
Proof.
  intros i p n nm rg ind Hr Hp Hin H0 H4 Hm H. destruct (offset_decodes i p n nm rg ind Hr Hp Hin H0 H4 Hm H) as (bs & A & B & [[C _] | [z [C _]]]);
    exists bs; eexists; eauto.
Qed.
Print Assumptions C12_indexed_constant_offsets.

Theorem C12_numeric_pcr : forall i p n ind, row_ok i = true -> Tables.is_pseudo i = false ->
  translate_indexed ind (LVal (VNum n)) t_PCR i = Ok p -> wellformed i p.
Proof.
  intros i p n ind Hr Hp H. destruct (numeric_pcr_decodes i p n ind Hr Hp H) as (bs & A & B & [[C _] | [z [C _]]]); exists bs; eexists; eauto.
Qed.
Print Assumptions C12_numeric_pcr.

(* finite sweeps over the regenerated table (static indexed forms, 5-bit offsets) and the table itself *)
Theorem C12_table_and_finite_forms :
  forallb row_ok Tables.instructions = true /\
  forallb (fun i => Tables.is_pseudo i || static_row_ok i) Tables.instructions = true /\
  (forall h md, forallb (fun i => Tables.is_pseudo i || off5_row_ok h md i) Tables.instructions = true) /\
  special_tables_ok = true.
Proof. split; [exact rows_ok|]. split; [exact static_forms_ok|]. split; [exact off5_ok | exact special_tables_are_ok]. Qed.
Print Assumptions C12_table_and_finite_forms.

(* "their count equals the space the listing reserves for the statement": for EVERY accepted program and EVERY
   statement of it, whatever its operand class - label operands, label arithmetic, PC-relative operands whose
   width the size loop decides, data directives (proofs/PSize.v) *)
Theorem C12_count_is_reserved_size :
  forall fm lines r, MProgram.assemble fm lines = Ok r ->
    Forall (fun s => r_size s = N.of_nat (length (r_bytes s))) (r_stmts r).
Proof. exact statement_size_is_bytes. Qed.
Print Assumptions C12_count_is_reserved_size.

(* ---- rejected rather than encoded as something else ---- *)
(* a value that cannot be represented in the operand's width *)
Theorem C12_unrepresentable_value_rejected :
  forall v d (signed : bool),
    let limit := (16 ^ Z.of_N d)%Z in
    (limit <= value_number v \/ value_number v < (if signed then - (limit / 2) else 0))%Z -> fit_value v d signed = Diag 21.
Proof. exact fit_out_of_range. Qed.
Print Assumptions C12_unrepresentable_value_rejected.

Theorem C12_direct_out_of_range_rejected :
  forall i n opc, Tables.dir i = Some opc ->
  (256 <= value_number (VNum n) \/ value_number (VNum n) < 0)%Z -> translate_operand (ODirect (VNum n)) i = Diag 21.
Proof. exact direct_out_of_range_rejected. Qed.
Print Assumptions C12_direct_out_of_range_rejected.

Theorem C12_immediate8_out_of_range_rejected :
  forall i n opc, Tables.imm i = Some opc -> imm_digits i = 2 ->
  (256 <= value_number (VNum n) \/ value_number (VNum n) < -128)%Z -> translate_operand (OImmediate (VNum n)) i = Diag 21.
Proof. exact immediate8_out_of_range_rejected. Qed.
Print Assumptions C12_immediate8_out_of_range_rejected.

(* an addressing mode the instruction does not have *)
Theorem C12_mode_not_available_rejected :
  forall i,
  (Tables.inh i = None -> translate_operand OInherent i = Diag 21) /\
  (forall n, Tables.imm i = None -> translate_operand (OImmediate (VNum n)) i = Diag 21) /\
  (forall n, Tables.dir i = None -> translate_operand (ODirect (VNum n)) i = Diag 21) /\
  (forall n, Tables.ext i = None -> translate_operand (OExtended (VNum n)) i = Diag 21) /\
  (forall s l r, Tables.ind i = None -> translate_operand (OIndexed s l r) i = Diag 21) /\
  (forall s v l r, Tables.ind i = None -> translate_operand (OExtIdx s v l r) i = Diag 21).
Proof. exact mode_not_available_rejected. Qed.
Print Assumptions C12_mode_not_available_rejected.

(* an unknown or inapplicable register *)
Theorem C12_unknown_register_rejected :
  forall m r rest acc, lookup_pshpul m r Tables.pshpul_table = None -> pshpul_mask m (r :: rest) acc = Diag 21.
Proof. exact unknown_register_rejected. Qed.
Print Assumptions C12_unknown_register_rejected.

Theorem C12_illegal_register_pair_rejected :
  forall s i r1 r2, is_pshpul (mnem i) = false -> is_tfrexg (mnem i) = true ->
  split_on 44 s = [r1; r2] -> lookup_tfrexg (mnem i) r1 r2 Tables.tfrexg_table = None -> translate_special s i = Diag 21.
Proof. exact illegal_register_pair_rejected. Qed.
Print Assumptions C12_illegal_register_pair_rejected.

Definition t (s : String.string) : text := text_of_string s.
Local Open Scope string_scope.

(* non-vacuity: the property text's own ill-typed examples are rejected by the whole model (5,Z and 1,PC
   were accepted as 5,X upstream: repair F37) *)
Example C12_nonvacuous :
  map (fun l => match assemble [] [t l] with Diag _ => true | _ => false end)
      [" LDA #256
"; " LDA <$1234
"; " LDA 70000
"; " PSHS S
"; " TFR A,X
"; " STA #1
"; " LEAX $10
"; " LDA [,X+]
"; " LDA 5,Z
"; " LDA 1,PC
"; " LDA ,X+++
"] = [true; true; true; true; true; true; true; true; true; true; true].
Proof. vm_compute. reflexivity. Qed.
