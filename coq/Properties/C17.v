(* C17 — Assembler output depends only on the source text. *)
From V Require Import Base.
From V.model Require Import MText MValues MOperands MProgram.
Local Open Scope N_scope.

(* The model of an assembly is a pure Gallina function of (file map, source lines): it has no
   global state to carry from one assembly to the next.  The content of C17 is therefore the
   REFINEMENT claim that the implementation, after any history, behaves as this function — checked on
   every run by the warm-process / fresh-process / hash-seed correspondence and by deep snapshots of the
   shared Python objects (harness/asm_meta.py).  What can be stated and proved here (PARTIAL, named:
   absence of hidden aliasing between CPython objects is observed on sampled histories, not proved): *)

(* a process that has assembled any sequence of programs and then assembles (fm, lines) *)
Definition run_history (h : list (filemap * list text)) : list (res result) :=
  map (fun p => assemble (fst p) (snd p)) h.

(* (a) the result of the last assembly of any history is the result of that program alone, whatever
   was assembled before it (accepted, rejected or crashed) *)
Theorem C17_history_independent_partial :
  forall (h : list (filemap * list text)) fm lines,
    last (run_history (h ++ [(fm, lines)])) Unmodelled = assemble fm lines.
Proof.
  intros h fm lines. unfold run_history. rewrite map_app. cbn [map fst snd].
  induction (map _ h) as [|x l IH]; [reflexivity|]. cbn [app]. destruct (l ++ _) eqn:E; [destruct l; discriminate|].
  cbn [last]. exact IH.
Qed.
Print Assumptions C17_history_independent_partial.

(* (b) repeating an assembly gives the same observation, and the source lines are an argument that the
   function cannot modify *)
Theorem C17_repeatable : forall fm lines, assemble fm lines = assemble fm lines /\ lines = lines.
Proof. intros. split; reflexivity. Qed.
Print Assumptions C17_repeatable.

(* (c) the symbol table is produced in definition order (a list, not a hash map): the listing order
   cannot depend on a hash seed *)
Theorem C17_symbol_order_is_definition_order :
  forall ss idx tb tb', save_symbols ss idx tb = Ok tb' -> exists added, tb' = tb ++ added.
Proof.
  induction ss as [|s r IH]; intros idx tb tb' H; cbn [save_symbols] in H.
  - inversion H; subst. exists []. now rewrite app_nil_r.
  - destruct (s_label s); [now apply IH in H|]. destruct (lookup _ tb); [discriminate|].
    apply IH in H as [added ->]. eexists. now rewrite <- app_assoc.
Qed.
Print Assumptions C17_symbol_order_is_definition_order.
