(* C03 — Branch and PC-relative displacements reach exactly the referenced target. *)
From V Require Import Base.
From V.model Require Import MText MValues MOperands MProgram.
From V.proofs Require Import PLayout PFrames PC02 PPcr PC03.
From V.gen Require Tables.
From Coq Require String.
Import String.StringSyntax.
Local Open Scope N_scope.

(* Setting of (a)-(d): ss3 = the statement list after the size loop, ss4 = the same list after the address
   pass (PLayout.placed is exactly what assign_addresses establishes, lemma assign_placed), fix_stmt =
   Statement.fix_addresses.  [no_org_between i j]: no ORG among statements i+1..j. *)

(* (a) short branches, backward (incl. a branch to itself) and forward, EVERY distance the tool accepts:
   the emitted byte, read as a signed 8-bit displacement and added to the address of the following
   instruction, is exactly the address of the target statement. *)
Theorem C03_short_branch_backward :
  forall ss3 ss4 a0, placed ss3 ss4 a0 -> forall this t s tgt s',
    nth_error ss4 this = Some s -> nth_error ss4 t = Some tgt -> (t <= this)%nat ->
    is_relative_op (s_operand s) = true -> Tables.is_short_branch (s_instr s) = true ->
    v_int (cp_add (s_pkg s)) = N.of_nat t -> 0 < sizeof s -> no_org_between ss3 t this ->
    fix_stmt ss4 (N.of_nat this) s = Ok s' ->
    exists n, cp_add (s_pkg s') = VNum n /\ n_neg n = false /\ n_int n < 256 /\
              (Z.of_N (addr_of_stmt s) + Z.of_N (sizeof s) + signed 8 (n_int n) = Z.of_N (addr_of_stmt tgt))%Z.
Proof. exact short_branch_backward. Qed.
Print Assumptions C03_short_branch_backward.

Theorem C03_short_branch_forward :
  forall ss3 ss4 a0, placed ss3 ss4 a0 -> forall this t s tgt s',
    nth_error ss4 this = Some s -> nth_error ss4 t = Some tgt -> (this < t)%nat ->
    is_relative_op (s_operand s) = true -> Tables.is_short_branch (s_instr s) = true ->
    v_int (cp_add (s_pkg s)) = N.of_nat t -> no_org_between ss3 this t ->
    fix_stmt ss4 (N.of_nat this) s = Ok s' ->
    exists n, cp_add (s_pkg s') = VNum n /\ n_neg n = false /\ n_int n < 128 /\
              (Z.of_N (addr_of_stmt s) + Z.of_N (sizeof s) + signed 8 (n_int n) = Z.of_N (addr_of_stmt tgt))%Z.
Proof. exact short_branch_forward. Qed.
Print Assumptions C03_short_branch_forward.

(* (b) a short branch whose target lies outside -128..+127 is rejected with a diagnostic *)
Theorem C03_short_branch_out_of_range_rejected :
  forall ss4 this t s,
    is_relative_op (s_operand s) = true -> Tables.is_short_branch (s_instr s) = true ->
    v_int (cp_add (s_pkg s)) = N.of_nat t ->
    ((t <= this)%nat /\ 129 < 1 + sum_range (fun x => cp_size (s_pkg x)) ss4 t (S (this - t))) \/
    ((this < t)%nat /\ 127 < sum_range (fun x => cp_size (s_pkg x)) ss4 (S this) (t - S this)) ->
    fix_stmt ss4 (N.of_nat this) s = Diag 2.
Proof. exact short_branch_out_of_range_rejected. Qed.
Print Assumptions C03_short_branch_out_of_range_rejected.

(* (c) long branches: the 16-bit field reaches the target (modulo 65536 backward, exactly forward) *)
Theorem C03_long_branch_backward :
  forall ss3 ss4 a0, placed ss3 ss4 a0 -> forall this t s tgt s',
    nth_error ss4 this = Some s -> nth_error ss4 t = Some tgt -> (t <= this)%nat ->
    is_relative_op (s_operand s) = true -> Tables.is_short_branch (s_instr s) = false ->
    v_int (cp_add (s_pkg s)) = N.of_nat t -> no_org_between ss3 t this ->
    1 + sum_range (fun x => cp_size (s_pkg x)) ss4 t (S (this - t)) <= 65537 ->
    fix_stmt ss4 (N.of_nat this) s = Ok s' ->
    exists n, cp_add (s_pkg s') = VNum n /\ n_neg n = false /\
              ((Z.of_N (addr_of_stmt s) + Z.of_N (sizeof s) + Z.of_N (n_int n)) mod 65536 = Z.of_N (addr_of_stmt tgt) mod 65536)%Z.
Proof. exact long_branch_backward. Qed.
Print Assumptions C03_long_branch_backward.

Theorem C03_long_branch_forward :
  forall ss3 ss4 a0, placed ss3 ss4 a0 -> forall this t s tgt s',
    nth_error ss4 this = Some s -> nth_error ss4 t = Some tgt -> (this < t)%nat ->
    is_relative_op (s_operand s) = true -> Tables.is_short_branch (s_instr s) = false ->
    v_int (cp_add (s_pkg s)) = N.of_nat t -> no_org_between ss3 this t ->
    fix_stmt ss4 (N.of_nat this) s = Ok s' ->
    exists n, cp_add (s_pkg s') = VNum n /\ n_neg n = false /\
              (Z.of_N (addr_of_stmt s) + Z.of_N (sizeof s) + Z.of_N (n_int n) = Z.of_N (addr_of_stmt tgt))%Z.
Proof. exact long_branch_forward. Qed.
Print Assumptions C03_long_branch_forward.

(* (d) label,PCR: the stored displacement d (a signed 16-bit quantity) satisfies
   (address of the following instruction + d) mod 65536 = address of the label *)
Theorem C03_pcr_displacement_reaches_target :
  forall ss4 this s s' tgt_addr start,
  is_relative_op (s_operand s) = false ->
  (forall l op r m, operand_left (s_operand s) <> Some (LVal (VExpr l op r m true))) ->
  (match operand_value (s_operand s) with VLR _ _ _ => True | _ => False end) ->
  cp_needs (s_pkg s) = true -> addr_offset (s_pkg s) = false (* a PCR statement: it has post-byte choices *) ->
  addr_of ss4 (v_int (cp_add (s_pkg s))) = Ok tgt_addr -> addr_of ss4 this = Ok start ->
  fix_stmt ss4 this s = Ok s' ->
  exists n, cp_add (s_pkg s') = VNum n /\ (-32768 <= num_val n <= 32767)%Z /\
            ((Z.of_N start + Z.of_N (cp_size (s_pkg s)) + num_val n) mod 65536 = Z.of_N tgt_addr mod 65536)%Z.
Proof. exact pcr_displacement_reaches_target. Qed.
Print Assumptions C03_pcr_displacement_reaches_target.

(* (e) the displacement is never emitted in a field too narrow for it.  For EVERY program and EVERY run
   of the size loop (any number of undecided PCR statements whose sizes depend on each other): a
   statement that leaves the loop with the 8-bit form passes the 8-bit span test evaluated on the FINAL
   sizes (invariant: sizes only grow, max_sizes only shrink — false upstream, repair F22) ... *)
Theorem C03_pcr_width_sound :
  forall fuel ss2 ss3, size_loop fuel ss2 = Ok ss3 -> Forall inv_s ss2 ->
  forall this s2 s3, nth_error ss2 this = Some s2 -> s_fixed s2 = false ->
    nth_error ss3 this = Some s3 -> s_hint s3 = 2 -> sound8 ss3 this s3.
Proof. exact pcr_width_sound. Qed.
Print Assumptions C03_pcr_width_sound.

(* ... the invariant holds of everything translate() produces ... *)
Theorem C03_translate_establishes_invariant :
  forall s s', translate_stmt s = Ok s' -> inv_s s'.
Proof. exact translate_stmt_inv. Qed.
Print Assumptions C03_translate_establishes_invariant.

(* ... and that test, with the addresses the address pass assigns, puts the true displacement
   (label + constant - address of the following instruction) inside -128..127 *)
Theorem C03_pcr_8bit_displacement_fits :
  forall ss3 ss4 a0, placed ss3 ss4 a0 -> Forall inv_s ss3 ->
  forall this rel s3 s4 tgt off,
    nth_error ss3 this = Some s3 -> nth_error ss4 this = Some s4 -> nth_error ss4 rel = Some tgt ->
    rel_index_of s3 = N.of_nat rel -> rel <> this -> fst (pcr_offset s3 false) = off ->
    sound8 ss3 this s3 ->
    (forall k b, (Nat.min this rel < k <= Nat.max this rel)%nat -> nth_error ss3 k = Some b -> has_own_address b = false) ->
    (-128 <= Z.of_N (addr_of_stmt tgt) + off - (Z.of_N (addr_of_stmt s4) + Z.of_N (cp_size (s_pkg s4))) <= 127)%Z.
Proof. exact pcr_8bit_displacement_fits. Qed.
Print Assumptions C03_pcr_8bit_displacement_fits.

Definition t (s : String.string) : text := text_of_string s.
Local Open Scope string_scope.

(* non-vacuity: the program that upstream miscompiled (8 bits chosen for d = +128) now gets 16 bits,
   a branch at its limit is accepted and one byte beyond it is rejected *)
Example C03_nonvacuous :
  (exists r, assemble [] ([t " LEAX T,PCR
"; t " LEAY FAR,PCR
"; t " LEAY FAR,PCR
"; t " LEAY FAR,PCR
"] ++ repeat (t " LDA 100,X
") 7 ++ [t " RMB 95
"; t "T NOP
"; t " RMB 300
"; t "FAR NOP
"]) = Ok r /\ firstn 4 (r_image r) = [48; 141; 0; 128]%N) /\
  (exists r, assemble [] [t "S BRA T
"; t " RMB 127
"; t "T NOP
"] = Ok r /\ firstn 2 (r_image r) = [32; 127]%N) /\
  assemble [] [t "S BRA T
"; t " RMB 128
"; t "T NOP
"] = Diag 2.
Proof. split; [eexists; split; vm_compute; reflexivity|]. split; [eexists; split; vm_compute; reflexivity | vm_compute; reflexivity]. Qed.
