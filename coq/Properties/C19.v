(* C19 — INCLUDE is textual inclusion. *)
From V Require Import Base.
From V.model Require Import MText MValues MOperands MProgram.
From V.proofs Require Import PInclude.
From Coq Require String.
Import String.StringSyntax.
Local Open Scope N_scope.

(* (a) For EVERY file map, EVERY position of the INCLUDE line in the program (any L1, L2) and EVERY
   included file (itself possibly containing INCLUDEs): if the program with the INCLUDE line is accepted
   with result r — image, per-statement listing addresses / sizes / bytes, symbol table, origin, name —
   then the program with that line replaced by the lines of the file is accepted with the SAME r.
   Labels on either side are visible on the other because both versions reach the later passes as the
   same flat statement list. *)
Theorem C19_include_is_textual_inclusion :
  forall fm L1 line L2 st ls r,
    parse_line line = Ok (Some st) -> is_include_stmt st = true -> lookup_file (s_opstr st) fm = Some ls ->
    assemble fm (L1 ++ line :: L2) = Ok r -> assemble fm (L1 ++ ls ++ L2) = Ok r.
Proof. exact assemble_splice. Qed.
Print Assumptions C19_include_is_textual_inclusion.

(* (b) a missing file and an inclusion cycle are reported as diagnostics (false upstream: FileNotFoundError
   and RecursionError tracebacks; repairs F20, F21) *)
Theorem C19_missing_file_rejected :
  forall fuel fm chain st post,
    is_include_stmt st = true -> lookup_file (s_opstr st) fm = None -> existsb (text_eqb (s_opstr st)) chain = false ->
    expand (S fuel) fm chain (st :: post) = Diag 2.
Proof. exact include_missing_rejected. Qed.
Print Assumptions C19_missing_file_rejected.

Theorem C19_cycle_rejected :
  forall fuel fm chain st post,
    is_include_stmt st = true -> existsb (text_eqb (s_opstr st)) chain = true ->
    expand (S fuel) fm chain (st :: post) = Diag 2.
Proof. exact include_cycle_rejected. Qed.
Print Assumptions C19_cycle_rejected.

Definition t (s : String.string) : text := text_of_string s.
Local Open Scope string_scope.

(* non-vacuity: a forward reference into the included file, a backward reference out of it, nested one
   level; and a cycle through two files *)
Example C19_nonvacuous :
  let fm := [(t "sub.asm", [t "SUB LDA #1
"; t " INCLUDE leaf.asm
"; t " BRA START
"]); (t "leaf.asm", [t "LEAF RTS
"])] in
  (exists r, assemble fm [t "START JSR SUB
"; t " INCLUDE sub.asm
"; t " JMP LEAF
"] = Ok r /\ r_image r = [189; 0; 3; 134; 1; 57; 32; 248; 126; 0; 5]%N /\
   assemble fm [t "START JSR SUB
"; t "SUB LDA #1
"; t "LEAF RTS
"; t " BRA START
"; t " JMP LEAF
"] = Ok r) /\
  assemble [(t "a.asm", [t " INCLUDE b.asm
"]); (t "b.asm", [t " INCLUDE a.asm
"])] [t " INCLUDE a.asm
"] = Diag 2.
Proof. split; [eexists; split; [vm_compute; reflexivity | split; [reflexivity | vm_compute; reflexivity]] | vm_compute; reflexivity]. Qed.
