(* C09 — Adding or appending a file never disturbs files already stored.
   ONLY property theorems closed by [exact], Print Assumptions, non-vacuity Examples.
   A history is a list of  Add f | SaveReopen ;  SaveReopen = build the image from scratch from the
   in-memory list (what save_virtual_file does), then open it again from its bytes with the tool's own
   sniffing and readers (what --append does on the next run).  image_after k h = the bytes the final
   save writes.  normc / normd = a file as ONE trip through a cassette / disk lists it (name padded
   to 8 / upper-cased, truncated to 8, blanks removed; ...); both are idempotent, so a file that went
   through any number of save/re-open cycles lists exactly like one that went through one. *)
From V Require Import Base.
From V.spec Require Import SpecTape SpecDisk.
From V.model Require Import MCassette MDisk MVirtualFile.
From V.proofs Require Import PCassetteR PDiskAlloc PDiskWrite PVirtualFile.
Local Open Scope N_scope.

(* Cassette.  For EVERY interleaving of adds and save/re-opens, the final image is exactly the tape
   written from the added files in order; re-opened it is recognised as a CASSETTE and lists every
   file added — earlier ones first, unchanged — and the checksum-verifying spec parser agrees.
   PARTIAL: hypotheses (i) no file with empty data (known finding tape_empty_file: such a file
   truncates every later listing), (ii) the final tape is shorter than 161,280 bytes (known finding
   tape_sniffed_as_disk: from that size on the disk reader is consulted first and may accept the
   buffer as a disk holding no files — MDisk.list_files is Unmodelled there; the witness, three
   60,000-byte files = 185,865 bytes, is too large to evaluate inside Coq and is replayed by the
   harness on every run), (iii) 7-bit ASCII names, 16-bit addresses. *)
Theorem C09_history_cassette_partial :
  forall h : list hop,
    Forall okc (adds h) -> tape_fits (adds h) ->
    exists img, image_after KCas h = Ok img /\
      img = MCassette.write (map to_cfile (adds h)) /\
      sniff img = Ok (map normc (adds h), KCas) /\
      SpecTape.parse img = Some (map (fun f => (to_cfile (normc f), 0)) (adds h)).
Proof. exact history_cassette. Qed.
Print Assumptions C09_history_cassette_partial.

(* Disk.  For EVERY interleaving that runs through (no save reports a full disk / directory), the final
   image passes the Disk BASIC consistency check, is recognised as a DISK when re-opened, and lists —
   for the tool's reader and for the chain-following spec reader — every file added, in order.
   Hypotheses: 7-bit ASCII names / extensions, 16-bit addresses.  No hypothesis on length or content. *)
Theorem C09_history_disk :
  forall (h : list hop) (img : list byte),
    Forall okd (adds h) -> image_after KDsk h = Ok img ->
    sniff img = Ok (map normd (adds h), KDsk) /\
    SpecDisk.files img = Some (map to_dfile (map normd (adds h))) /\
    SpecDisk.fsck img = true.
Proof. exact history_disk. Qed.
Print Assumptions C09_history_disk.

(* Disk, unconditional form ("up to the capacity of the medium"): files that fit on a blank disk when
   added in one go can be added through ANY interleaving with save/re-open — no intermediate save
   fails (allocation depends only on the chains handed out and on each file's granule count, which
   normalisation does not change) — and the final image lists them all as above. *)
Theorem C09_history_disk_total :
  forall (h : list hop) (st : state),
    Forall okd (adds h) -> MDisk.add_files default_order [] (map to_dfile (adds h)) = Ok st ->
    exists img, image_after KDsk h = Ok img /\
      sniff img = Ok (map normd (adds h), KDsk) /\
      SpecDisk.files img = Some (map to_dfile (map normd (adds h))) /\
      SpecDisk.fsck img = true.
Proof. exact history_disk_total. Qed.
Print Assumptions C09_history_disk_total.

(* the normalisations are idempotent (the reason repeated save/re-open cycles change nothing more) *)
Theorem C09_normalisation_idempotent :
  forall f, normc (normc f) = normc f /\ normd (normd f) = normd f.
Proof. exact (fun f => conj (normc_idem f) (normd_idem f)). Qed.
Print Assumptions C09_normalisation_idempotent.

(* an image the tool wrote is recognised as its own kind when re-opened *)
Theorem C09_kind_recognised_cassette_partial :
  forall cs : list cfile,
    Forall valid_cfile cs -> Forall (fun c => c_data c <> []) cs -> tape_size_ok cs ->
    sniff (MCassette.write cs) = Ok (map of_cfile (map MCassette.norm cs), KCas).
Proof. exact sniff_cassette. Qed.
Print Assumptions C09_kind_recognised_cassette_partial.

Theorem C09_kind_recognised_disk :
  forall (order : list N) (ds : list dfile) (st : state),
    in_range order -> Forall valid_dfile ds -> MDisk.add_files order [] ds = Ok st ->
    sniff (image_of st) = Ok (map of_dfile (map MDisk.norm ds), KDsk).
Proof. exact sniff_disk. Qed.
Print Assumptions C09_kind_recognised_disk.

(* non-vacuity, cassette: add, save/re-open, add (lower-case name, 300 bytes = two blocks), save/re-open,
   add: the premises hold and the run computes *)
Example C09_cassette_nonvacuous :
  let a := {| f_name := [65]; f_ext := []; f_type := 2; f_dtype := 0; f_load := 3584; f_exec := 3584; f_data := [1;2;3] |} in
  let b := {| f_name := [104;105]; f_ext := ext_bin; f_type := 2; f_dtype := 0; f_load := 16; f_exec := 16; f_data := repeat 85 300 |} in
  let c := {| f_name := [67]; f_ext := []; f_type := 0; f_dtype := 255; f_load := 0; f_exec := 0; f_data := [7] |} in
  let h := [Add a; SaveReopen; Add b; SaveReopen; SaveReopen; Add c] in
  Forall okc (adds h) /\ tape_fits (adds h) /\
  image_after KCas h = Ok (MCassette.write [to_cfile a; to_cfile b; to_cfile c]) /\
  map f_name (map normc (adds h)) = [[65;32;32;32;32;32;32;32]; [104;105;32;32;32;32;32;32]; [67;32;32;32;32;32;32;32]].
Proof.
  cbv zeta. split; [|split; [|split]].
  - repeat constructor; discriminate.
  - vm_compute. reflexivity.
  - vm_compute. reflexivity.
  - reflexivity.
Qed.

(* non-vacuity, disk: add, save/re-open, add: the run goes through (the 161,280-byte images are never
   evaluated: the re-open is discharged by C09_kind_recognised_disk) *)
Example C09_disk_nonvacuous :
  let a := {| f_name := [104;105]; f_ext := ext_bin; f_type := 2; f_dtype := 0; f_load := 3584; f_exec := 3584; f_data := repeat 7 2296 |} in
  let b := {| f_name := [84]; f_ext := []; f_type := 1; f_dtype := 255; f_load := 5; f_exec := 6; f_data := [65;66] |} in
  let h := [Add a; SaveReopen; Add b] in
  Forall okd (adds h) /\
  (exists st, image_after KDsk h = Ok (image_of st) /\ map snd st = [[32; 33]; [34]]) /\
  map f_name (map normd (adds h)) = [[72;73]; [84]] /\ map f_load (map normd (adds h)) = [3584; 0].
Proof.
  cbv zeta. split; [|split; [|split]].
  - repeat constructor.
  - unfold image_after. cbn [run_hist bind].
    erewrite reopen_disk_ok; [|repeat constructor|vm_compute; reflexivity].
    cbn [bind run_hist add_vf v_files v_kind v_exists build_image].
    match goal with |- exists st, (do st0 <- ?A; Ok (image_of st0)) = _ /\ _ =>
      let r := eval vm_compute in A in
      match r with Ok ?s => exists s; replace A with r by (vm_compute; reflexivity) end end.
    cbn [bind]. split; reflexivity.
  - reflexivity.
  - reflexivity.
Qed.
