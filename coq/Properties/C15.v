(* C15 — Disk space accounting is exact: files that fit are stored, others fail cleanly. *)
From V Require Import Base.
From V.spec Require Import SpecDisk.
From V.model Require Import MDisk.
From V.proofs Require Import PDiskAlloc PDiskWrite PDiskFlat PDiskProps.
Local Open Scope N_scope.

(* (a) On every reachable state (wf_state: the invariant of add sequences from the blank image) with
   F = free st free granules, a file needing n = needed f <= F granules is stored in exactly n
   granules, all of them previously free and pairwise distinct, the state grows by exactly that file
   (one directory slot), and F drops by n.  Any fill order that reaches all 68 granules. *)
Theorem C15_fits_is_stored :
  forall order st f,
    order_ok order -> (68 <= length order)%nat -> wf_state st ->
    N.of_nat (length (d_data f)) <= 65535 -> (needed f <= free st)%nat ->
    exists gs, add_file order st f = Ok (st ++ [(f, gs)]) /\ length gs = needed f /\
               (forall g, In g gs -> g < 68 /\ ~ In g (used st)) /\ NoDup gs /\
               wf_state (st ++ [(f, gs)]) /\ free (st ++ [(f, gs)]) = (free st - needed f)%nat.
Proof. exact add_file_fits. Qed.
Print Assumptions C15_fits_is_stored.

(* (b) needed f is the minimum for the stored stream's length, or one more at exact multiples *)
Theorem C15_needed_minimal :
  forall f, ((needed f - 1) * GR <= slen f)%nat /\ (slen f < needed f * GR)%nat.
Proof. exact needed_minimal. Qed.
Print Assumptions C15_needed_minimal.

(* (c) a file needing more granules than are free fails with the tool's diagnostic; the state (hence
   the image, which is a function of it) is not changed *)
Theorem C15_overflow_fails :
  forall order st f,
    in_range order -> (68 <= length order)%nat -> wf_state st ->
    N.of_nat (length (d_data f)) <= 65535 -> (free st < needed f)%nat ->
    add_file order st f = Diag 11.
Proof. exact add_file_overflow. Qed.
Print Assumptions C15_overflow_fails.

(* (d) an empty disk offers all 68 granules, the regenerated default fill order reaches each of them,
   the directory-slot search (regenerated bound) never refuses on a reachable state that has a free
   granule, and the free count read off the flat image equals the model's *)
Theorem C15_blank_capacity :
  free [] = 68%nat /\ order_ok default_order /\ (68 <= length default_order)%nat /\
  68 <? Tables.dir_slots_searched = true.
Proof. split; [reflexivity|]. split; [apply default_order_ok|]. split; [apply default_order_ok | exact slots_ok]. Qed.
Print Assumptions C15_blank_capacity.

Theorem C15_free_read_from_image :
  forall st, wf_state st -> free_granules (slice (image_of st)) = free st.
Proof. exact free_granules_image. Qed.
Print Assumptions C15_free_read_from_image.

(* (e) whatever happens, add_file stores exactly that file or ends in a diagnostic *)
Theorem C15_outcome :
  forall order st f, in_range order -> N.of_nat (length (d_data f)) <= 65535 ->
    (exists gs, add_file order st f = Ok (st ++ [(f, gs)])) \/ (exists c, add_file order st f = Diag c).
Proof. exact add_file_outcome. Qed.
Print Assumptions C15_outcome.

(* non-vacuity: 68 one-granule files fill the blank disk under the default order, the 69th fails *)
Example C15_nonvacuous :
  let f := {| d_name := [70]; d_ext := []; d_type := 2; d_ascii := 0; d_load := 0; d_exec := 0; d_data := [1] |} in
  (exists st, add_files default_order [] (repeat f 68) = Ok st /\ free st = 0%nat) /\
  add_files default_order [] (repeat f 69) = Diag 11.
Proof. split; [eexists; split; vm_compute; reflexivity | vm_compute; reflexivity]. Qed.
