(* C13 — Assembly always terminates with output or a source-level diagnostic. *)
From V Require Import Base.
From V.model Require Import MText MValues MOperands MProgram.
From V.proofs Require Import PSizeLoop PClean PTerminate.
Local Open Scope N_scope.

(* (a) For EVERY file map and EVERY list of source lines the model of Program.process ends: it never
   runs out of fuel.  The only fuelled loops are INCLUDE expansion (fuel = number of files + 1: a chain
   of open includes never repeats a name, so it is never exhausted) and the PCR size loop (fuel =
   number of statements + 1: every round decides a statement or forces the first undecided one to
   16 bits).  On the pinned upstream tree this was false: LEAX T,PCR + 122 bytes + T looped forever. *)
Theorem C13_assembly_terminates :
  forall (fm : filemap) (lines : list text), MProgram.assemble fm lines <> OutOfFuel.
Proof. exact assemble_terminates. Qed.
Print Assumptions C13_assembly_terminates.

Theorem C13_size_loop_terminates :
  forall ss : list stmt, MProgram.size_loop (S (length ss)) ss <> OutOfFuel.
Proof. exact size_loop_enough_fuel. Qed.
Print Assumptions C13_size_loop_terminates.

Theorem C13_include_expansion_terminates :
  forall (fm : filemap) (ss : list stmt), MProgram.expand (S (length fm)) fm [] ss <> OutOfFuel.
Proof. intros fm ss. apply expand_ff; [constructor | intros x [] | cbn [length]; lia]. Qed.
Print Assumptions C13_include_expansion_terminates.

(* (b) Parsing never fails with an internal error: for EVERY list of lines (any text whatsoever) the
   parse is a list of statements, a ParseError, or — for a line with a newline in its middle, which
   readlines() never produces — outside the model.  (partial: the later passes can still end in an
   internal error, see (c); that their Internal predictions are complete is validated by the
   correspondence fuzz, not proved.) *)
Theorem C13_parsing_never_crashes_partial :
  forall lines : list text,
    match MProgram.parse_lines lines with Ok _ | Diag _ | Unmodelled => True | Internal _ | OutOfFuel => False end.
Proof. exact parse_lines_never_crash. Qed.
Print Assumptions C13_parsing_never_crashes_partial.

From Coq Require String.
Import String.StringSyntax.
Definition t (s : String.string) : text := text_of_string s.
Local Open Scope string_scope.

(* (c) The program that used to die with an IndexError (a label as a constant index offset, repaired by
   F43) is assembled: the 16-bit offset form with the label's address. *)
Example C13_former_crash_assembles :
  exists r, MProgram.assemble [] [t "L NOP
"; t " LDA L,X
"] = Ok r /\ r_image r = [18; 166; 137; 0; 0].
Proof. eexists. split; vm_compute; reflexivity. Qed.

(* non-vacuity: the boundary program that used to hang is assembled (16-bit form forced) *)
Example C13_boundary_program_terminates :
  exists r, MProgram.assemble [] [t " LEAX T,PCR
"; t " RMB 122
"; t "T NOP
"] = Ok r /\ firstn 4 (r_image r) = [48; 141; 0; 122].
Proof. eexists. split; vm_compute; reflexivity. Qed.
