(* C13 — Assembly always terminates with output or a source-level diagnostic. *)
From V Require Import Base.
From V.model Require Import MText MValues MOperands MProgram.
From V.proofs Require Import PSizeLoop PClean PTerminate PNoCrash.
Local Open Scope N_scope.

(* (a) For EVERY file map and EVERY list of source lines the model of Program.process ends: it never
   runs out of fuel.  The only fuelled loops are INCLUDE expansion (fuel = number of files + 1: a chain
   of open includes never repeats a name, so it is never exhausted) and the PCR size loop (fuel =
   number of statements + 1: every round decides a statement or forces the first undecided one to
   16 bits).  On the pinned upstream tree this was false: LEAX T,PCR + 122 bytes + T looped forever. *)
Theorem C13_assembly_terminates :
  forall (fm : filemap) (lines : list text), MProgram.assemble fm lines <> OutOfFuel.
Proof. exact assemble_terminates. Qed.
Print Assumptions C13_assembly_terminates.

Theorem C13_size_loop_terminates :
  forall ss : list stmt, MProgram.size_loop (S (length ss)) ss <> OutOfFuel.
Proof. exact size_loop_enough_fuel. Qed.
Print Assumptions C13_size_loop_terminates.

Theorem C13_include_expansion_terminates :
  forall (fm : filemap) (ss : list stmt), MProgram.expand (S (length fm)) fm [] ss <> OutOfFuel.
Proof. intros fm ss. apply expand_ff; [constructor | intros x [] | cbn [length]; lia]. Qed.
Print Assumptions C13_include_expansion_terminates.

(* (b) THE SECOND HALF OF THE PROPERTY: for EVERY file map and EVERY list of source lines (any text whatsoever)
   the assembler never ends in an exception class it does not report as a diagnostic.  Every place of the model
   that stands for such an exception - IndexError on a statement index, on a post-byte choice, on a hex string
   shorter than the emission loop reads; AttributeError on the None that SymbolValue.resolve can return; a
   ValueTypeError / OperandTypeError outside a try - is unreachable.  Invariants, carried from parsing to
   emission (proofs/PNoCrash.v): every statement index stored in a value is below the number of statements;
   None never reaches a dereference; an undecided statement offers two post-byte choices; every size hint is
   even, every string character fits a byte, every value list has an even number of digits.
   False upstream and on earlier states of this tree: repairs F5, F6, F19, F20, F21, F43, F47, F50, F51 each
   removed a reachable site (the last two were found while this proof was being planned). *)
Theorem C13_never_an_uncaught_exception :
  forall (fm : filemap) (lines : list text) (k : N), MProgram.assemble fm lines <> Internal k.
Proof. intros fm lines k H. pose proof (assemble_no_internal fm lines) as X. rewrite H in X. exact X. Qed.
Print Assumptions C13_never_an_uncaught_exception.

(* (a) + (b): the outcome is an image with its listing, or a diagnostic.  (Unmodelled is the model declining to
   predict: a line with a newline in its middle, which readlines() never produces, or a number whose rendering
   Python would sign - none is reachable in the correspondence runs, which count them.) *)
Theorem C13_result_or_diagnostic :
  forall (fm : filemap) (lines : list text),
    match MProgram.assemble fm lines with Ok _ | Diag _ | Unmodelled => True | Internal _ | OutOfFuel => False end.
Proof.
  intros fm lines. pose proof (assemble_no_internal fm lines) as X. pose proof (assemble_terminates fm lines) as Y.
  destruct (MProgram.assemble fm lines); auto.
Qed.
Print Assumptions C13_result_or_diagnostic.

(* parsing alone *)
Theorem C13_parsing_never_crashes :
  forall lines : list text,
    match MProgram.parse_lines lines with Ok _ | Diag _ | Unmodelled => True | Internal _ | OutOfFuel => False end.
Proof. exact parse_lines_never_crash. Qed.
Print Assumptions C13_parsing_never_crashes.

From Coq Require String.
Import String.StringSyntax.
Definition t (s : String.string) : text := text_of_string s.
Local Open Scope string_scope.

(* (c) The program that used to die with an IndexError (a label as a constant index offset, repaired by
   F43) is assembled: the 16-bit offset form with the label's address. *)
Example C13_former_crash_assembles :
  exists r, MProgram.assemble [] [t "L NOP
"; t " LDA L,X
"] = Ok r /\ r_image r = [18; 166; 137; 0; 0].
Proof. eexists. split; vm_compute; reflexivity. Qed.

(* non-vacuity: the boundary program that used to hang is assembled (16-bit form forced) *)
Example C13_boundary_program_terminates :
  exists r, MProgram.assemble [] [t " LEAX T,PCR
"; t " RMB 122
"; t "T NOP
"] = Ok r /\ firstn 4 (r_image r) = [48; 141; 0; 122].
Proof. eexists. split; vm_compute; reflexivity. Qed.
