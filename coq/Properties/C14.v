(* C14 — Every cassette image written is a well-formed CoCo tape stream.
   This file holds ONLY the property theorem(s), closed by [exact], and Print Assumptions. *)
From V Require Import Base.
From V.spec Require Import SpecTape.
From V.model Require Import MCassette.
From V.proofs Require Import PCassetteW.
Local Open Scope N_scope.

(* For EVERY list of files (any number, any names, any data length and content, any type bytes;
   16-bit addresses), the written stream parses under the checksum-verifying spec parser
   SpecTape.parse — leader, 15-byte name block, leader, data blocks of 1..255 bytes, EOF block,
   every frame $55 $3C type len payload checksum $55 — to exactly those files (name = first 8
   characters space padded, gap flag 0), with nothing left over. *)
Theorem C14_written_tape_wellformed :
  forall fs : list cfile,
    Forall (fun f => c_load f < 65536 /\ c_exec f < 65536) fs ->
    SpecTape.parse (MCassette.write fs) = Some (map (fun f => (MCassette.norm f, 0)) fs).
Proof. exact written_tape_wellformed. Qed.
Print Assumptions C14_written_tape_wellformed.

(* non-vacuity: a concrete 2-file tape (one file of 300 bytes spanning two data blocks, one empty) *)
Example C14_nonvacuous :
  let fs := [ {| c_name := [72;73]; c_type := 2; c_dtype := 0; c_load := 3584; c_exec := 3600;
                 c_data := repeat 85 300 |};
              {| c_name := []; c_type := 0; c_dtype := 255; c_load := 0; c_exec := 0; c_data := [] |} ] in
  SpecTape.parse (MCassette.write fs) = Some (map (fun f => (MCassette.norm f, 0)) fs)
  /\ length (MCassette.write fs) = 1390%nat.
Proof. vm_compute. split; reflexivity. Qed.
