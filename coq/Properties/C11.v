(* C11 — The saved image holds the assembled program, at its origin, under its name.
   ONLY property theorems closed by [exact], Print Assumptions, a non-vacuity Example.
   MCli.assembler_main fs args fm lines = Program.process (MProgram.assemble) followed by the save part
   of assembler.py (MVirtualFile.asm_save: CoCoFile(name = NAM or --name, load = exec = origin, type 2,
   data type 0, data = image), one try/except per switch, the no-name guard).
   effective_name a r = `program.name or args.name`; MCli.origin_word = the 16-bit word that
   Value.high_byte()/low_byte() of program.origin put into the container headers (0 for NoneValue).
   "q is a NEW path that only switch k points at": only_switch a k q, fs q = None. *)
From V Require Import Base.
From V.spec Require Import SpecTape SpecDisk.
From V.model Require Import MText MValues MOperands MProgram.
From V.model Require Import MCassette MDisk MVirtualFile MCli.
From V.proofs Require Import PVirtualFile PCli PC02 PC11origin.
Local Open Scope N_scope.

(* --to_bin: the file is byte for byte the assembled image *)
Theorem C11_to_bin_is_the_image :
  forall fs a fm lines r q,
    assemble fm lines = Ok r -> only_switch a KBin q -> fs q = None ->
    fst (fst (assembler_main fs a fm lines)) q = Some (r_image r).
Proof. exact main_bin. Qed.
Print Assumptions C11_to_bin_is_the_image.

(* --to_cas (a name exists): the file is the one-file tape MCassette.write [file]; the checksum-verifying
   spec parser lists exactly one machine-language file (type 2, data type 0, gap flag 0) whose data is the
   image, whose load and entry addresses are the origin word, whose name is the first 8 characters of the
   effective name, space padded (exact case) *)
Theorem C11_to_cas_holds_the_program :
  forall fs a fm lines r q,
    assemble fm lines = Ok r -> only_switch a KCas q -> fs q = None ->
    effective_name a r <> [] -> origin_word (r_origin r) < 65536 ->
    exists img, fst (fst (assembler_main fs a fm lines)) q = Some img /\
      img = MCassette.write [to_cfile (asm_file a (program_of_result r))] /\
      SpecTape.parse img = Some [(ml_cfile (effective_name a r) (origin_word (r_origin r)) (r_image r), 0)].
Proof. exact main_cas. Qed.
Print Assumptions C11_to_cas_holds_the_program.

(* --to_dsk (a 7-bit ASCII name exists, image of at most 65535 bytes — it then always fits a blank disk):
   the file is a 161,280-byte image passing the Disk BASIC consistency check whose chain-following spec
   reader lists exactly one machine-language file: data = image, load = entry = origin word, name = first
   8 characters upper-cased without blanks, extension BIN *)
Theorem C11_to_dsk_holds_the_program :
  forall fs a fm lines r q,
    assemble fm lines = Ok r -> only_switch a KDsk q -> fs q = None ->
    effective_name a r <> [] -> ascii_only (effective_name a r) = true ->
    origin_word (r_origin r) < 65536 -> N.of_nat (length (r_image r)) <= 65535 ->
    exists st, fst (fst (assembler_main fs a fm lines)) q = Some (image_of st) /\
      MDisk.add_files default_order [] [to_dfile (asm_file a (program_of_result r))] = Ok st /\
      SpecDisk.fsck (image_of st) = true /\
      SpecDisk.files (image_of st) = Some [ml_dfile (effective_name a r) (origin_word (r_origin r)) (r_image r)].
Proof. exact main_dsk. Qed.
Print Assumptions C11_to_dsk_holds_the_program.

(* without any name no cassette and no disk file is created: every path other than the --to_bin target
   is what it was (in particular absent stays absent) *)
Theorem C11_no_name_no_container :
  forall fs a fm lines r q,
    assemble fm lines = Ok r -> effective_name a r = [] -> s_to_bin a <> Some q ->
    fst (fst (assembler_main fs a fm lines)) q = fs q.
Proof. exact main_noname. Qed.
Print Assumptions C11_no_name_no_container.

(* the origin word IS the origin address: for NumericValue(address) as Statement.set_address builds it
   (size hint 2 below 256 — the value renders in TWO hex digits and high_byte() answers 0 — no hint
   above), and for every non-negative NumericValue below 65536 whose hint is absent, 4, or 2 with a
   value below 256 (`ORG $0E00`, `ORG $10`, `ORG 3584`, ...); no ORG at all gives 0.
   That MProgram.assemble never yields another kind of origin Value is theorem C11_header_word_is_the_origin below. *)
Theorem C11_origin_word_of_address :
  forall a v, numv a = Ok v -> origin_word (Some v) = a /\ v_int v = a /\ a < 65536.
Proof. exact origin_word_numv. Qed.
Print Assumptions C11_origin_word_of_address.

Theorem C11_origin_word_of_numeric :
  forall n, n_neg n = false -> n_int n < 65536 ->
    (n_hint n = None \/ n_hint n = Some 4 \/ (n_hint n = Some 2 /\ n_int n < 256)) ->
    origin_word (Some (VNum n)) = v_int (VNum n).
Proof. exact origin_word_num. Qed.
Print Assumptions C11_origin_word_of_numeric.

(* for EVERY accepted program - whatever the spelling of the ORG operand: decimal, $hex of any length, %binary, 'c, an
   EQU symbol, a constant expression - the word assembler.py puts into the cassette header and the disk preamble
   (high_byte()*256 + low_byte() of Program.origin) IS the origin address, the address at which C02 places the image
   (PC02.origin_value; C02_image_loads_at_origin), and it is a 16-bit address.  Invariant: the operand of an ORG
   statement is, after resolve_symbols, a non-negative NumericValue below 65536 whose size hint is absent, 4, or 2
   with a value below 256; it becomes the statement's own address and no later pass touches it (proofs/PC11origin.v). *)
Theorem C11_header_word_is_the_origin :
  forall fm lines r, assemble fm lines = Ok r ->
    origin_word (r_origin r) = origin_value r /\ origin_value r < 65536.
Proof. exact origin_word_is_the_origin. Qed.
Print Assumptions C11_header_word_is_the_origin.

(* an assembly that ends in a diagnostic saves nothing and exits 1 *)
Theorem C11_error_saves_nothing :
  forall fs a fm lines e,
    classify (assemble fm lines) = inr e -> assembler_main fs a fm lines = (fs, [EError e], 1).
Proof. exact main_error. Qed.
Print Assumptions C11_error_saves_nothing.

(* non-vacuity: `  NAM hi / ORG $10 / LDA #1 / RTS` assembles in the model (origin below $100: the
   address renders as "10"), and the premises of the three theorems hold for it *)
Example C11_nonvacuous :
  let lines : list text := [ [32;32;78;65;77;32;104;105;10]; [32;32;79;82;71;32;36;49;48;10];
                             [32;32;76;68;65;32;35;49;10]; [32;32;82;84;83;10] ] in
  let a := {| s_to_bin := Some [98]; s_to_cas := Some [99]; s_to_dsk := Some [100]; s_name := []; s_append := false |} in
  exists r, assemble [] lines = Ok r /\ r_image r = [134; 1; 57] /\
            effective_name a r = [104; 105] /\ origin_word (r_origin r) = 16 /\
            only_switch a KBin [98] /\ only_switch a KCas [99] /\ only_switch a KDsk [100] /\
            ml_dfile (effective_name a r) (origin_word (r_origin r)) (r_image r) =
              {| d_name := [72; 73]; d_ext := [66; 73; 78]; d_type := 2; d_ascii := 0; d_load := 16; d_exec := 16; d_data := [134; 1; 57] |}.
Proof.
  cbv zeta. eexists. split; [vm_compute; reflexivity|].
  repeat split; try (intros k' H; destruct k'; cbn in H; congruence).
Qed.
