(* C01 — Every instruction statement is encoded as the MC6809 instruction it names. *)
From V Require Import Base.
From V.spec Require Import Spec6809.
From V.model Require Import MText MValues MOperands MProgram.
From V.proofs Require Import PRender PC12 PC18 PC01text PC01acc PC01src.
From V.gen Require Tables.
From Coq Require String.
Import String.StringSyntax.
Local Open Scope N_scope.

(* Specification side: Spec6809.decode, the datasheet opcode map and post-byte grammar, written
   independently of the tool.  [final_bytes p] are the bytes Program.get_binary_array emits for a
   statement whose code package is p; [canon] maps the alias spellings (LSL, BHS, BLO, ...) to one name.
   [row_ok i] is the per-row table obligation, re-proved for EVERY row of the regenerated table on every
   run (theorem C01_table_agrees_with_datasheet). *)

(* (0) the opcode/size table: every opcode of every row decodes, by the datasheet, to the row's own
   mnemonic in that addressing mode, sizes are opcode bytes + operand bytes (false upstream for SWI/SYNC:
   repair F3), and no datasheet instruction is missing from the table *)
Theorem C01_table_agrees_with_datasheet :
  forallb row_ok Tables.instructions = true /\ datasheet_covered = true.
Proof. split; [exact rows_ok | exact datasheet_is_covered]. Qed.
Print Assumptions C01_table_agrees_with_datasheet.

(* (1) inherent *)
Theorem C01_inherent :
  forall i p, row_ok i = true -> Tables.is_pseudo i = false -> translate_operand OInherent i = Ok p ->
  exists bs, final_bytes p = Ok bs /\ N.of_nat (length bs) = cp_size p /\
             decode bs = Some ({| i_mnem := canon (mnem i); i_op := OInh |}, []).
Proof. exact inherent_decodes. Qed.
Print Assumptions C01_inherent.

(* (2) #immediate, 8 and 16 bit, EVERY value: the operand decodes to the value's two's complement at the
   width the datasheet gives the instruction (never the width of the literal's spelling: repair F26) *)
Theorem C01_immediate :
  forall i p v, row_ok i = true -> Tables.is_pseudo i = false -> Tables.is_special i = false ->
  v_is_numeric v = true -> translate_operand (OImmediate v) i = Ok p ->
  exists bs, final_bytes p = Ok bs /\ N.of_nat (length bs) = cp_size p /\
    ((-128 <= value_number v <= 255)%Z /\
     decode bs = Some ({| i_mnem := canon (mnem i); i_op := OImm8 (Z.to_N (value_number v mod 256)) |}, []) \/
     (-32768 <= value_number v <= 65535)%Z /\
     decode bs = Some ({| i_mnem := canon (mnem i); i_op := OImm16 (Z.to_N (value_number v mod 65536)) |}, [])).
Proof. exact immediate_decodes. Qed.
Print Assumptions C01_immediate.

(* (3) direct and extended (after the < / > / value-based choice made by resolve_symbols) *)
Theorem C01_direct :
  forall i p v, row_ok i = true -> Tables.is_pseudo i = false -> v_is_numeric v = true ->
  translate_operand (ODirect v) i = Ok p ->
  (0 <= value_number v <= 255)%Z /\
  exists bs, final_bytes p = Ok bs /\ N.of_nat (length bs) = cp_size p /\
             decode bs = Some ({| i_mnem := canon (mnem i); i_op := ODir (Z.to_N (value_number v)) |}, []).
Proof. exact direct_decodes. Qed.
Print Assumptions C01_direct.

Theorem C01_extended :
  forall i p v, row_ok i = true -> Tables.is_pseudo i = false -> v_is_numeric v = true ->
  translate_operand (OExtended v) i = Ok p ->
  (-32768 <= value_number v <= 65535)%Z /\
  exists bs, final_bytes p = Ok bs /\ N.of_nat (length bs) = cp_size p /\
             decode bs = Some ({| i_mnem := canon (mnem i); i_op := OExt (Z.to_N (value_number v mod 65536)) |}, []).
Proof. exact extended_decodes. Qed.
Print Assumptions C01_extended.

(* (4) [extended indirect] *)
Theorem C01_extended_indirect :
  forall i p s v l r, row_ok i = true -> Tables.is_pseudo i = false -> v_is_numeric v = true ->
  translate_operand (OExtIdx s v l r) i = Ok p ->
  (-32768 <= value_number v <= 65535)%Z /\
  exists bs, final_bytes p = Ok bs /\ N.of_nat (length bs) = cp_size p /\
             decode bs = Some ({| i_mnem := canon (mnem i); i_op := OIdx (IExtInd (Z.to_N (value_number v mod 65536))) |}, []).
Proof. exact extended_indirect_decodes. Qed.
Print Assumptions C01_extended_indirect.

(* (5) indexed without a value: ,R  A/B/D,R  ,R+  ,R++  ,-R  ,--R and the indirect variant of each, for each
   of X Y U S, for EVERY row of the table that has an indexed mode (kernel-evaluated finite sweep over the
   regenerated table: 56 forms x every indexed row) *)
Theorem C01_indexed_static_forms :
  forallb (fun i => Tables.is_pseudo i || static_row_ok i) Tables.instructions = true.
Proof. exact static_forms_ok. Qed.
Print Assumptions C01_indexed_static_forms.

(* (6) 5-bit constant offsets -16..15 (and 0,R = ,R), every register, every indexed row, whatever the
   width hint and mode the literal's spelling gave the value (h, md are universally quantified) *)
Theorem C01_indexed_5bit_offsets :
  forall h md, forallb (fun i => Tables.is_pseudo i || off5_row_ok h md i) Tables.instructions = true.
Proof. exact off5_ok. Qed.
Print Assumptions C01_indexed_5bit_offsets.

(* (7) 8- and 16-bit constant offsets, direct and indirect, EVERY value: the decoded offset is the value
   written (the 16-bit form modulo 65536); upstream emitted a second offset byte for 16-bit-register
   instructions (repair F24) and reserved no bytes for negative offsets (repair F9) *)
Theorem C01_indexed_constant_offsets :
  forall i p n nm rg ind, row_ok i = true -> Tables.is_pseudo i = false -> In (nm, rg) reg_names ->
  n_int n <> 0 -> (ind = false -> negb (is_4_bit n) = true) -> n_int n <= 32768 ->
  translate_indexed ind (LVal (VNum n)) nm i = Ok p ->
  exists bs, final_bytes p = Ok bs /\ N.of_nat (length bs) = cp_size p /\
    (decode bs = Some ({| i_mnem := canon (mnem i); i_op := OIdx (IOff8 rg (num_value n) ind) |}, []) /\ (-128 <= num_value n <= 127)%Z \/
     exists z, decode bs = Some ({| i_mnem := canon (mnem i); i_op := OIdx (IOff16 rg z ind) |}, []) /\
               (z mod 65536 = num_value n mod 65536)%Z).
Proof. exact offset_decodes. Qed.
Print Assumptions C01_indexed_constant_offsets.

(* (8) a bare numeric n,PCR / [n,PCR]: the displacement is n (false upstream: repair F27) *)
Theorem C01_numeric_pcr :
  forall i p n ind, row_ok i = true -> Tables.is_pseudo i = false ->
  translate_indexed ind (LVal (VNum n)) t_PCR i = Ok p ->
  exists bs, final_bytes p = Ok bs /\ N.of_nat (length bs) = cp_size p /\
    (decode bs = Some ({| i_mnem := canon (mnem i); i_op := OIdx (IPc8 (num_value n) ind) |}, []) /\ (-128 <= num_value n <= 127)%Z \/
     exists z, decode bs = Some ({| i_mnem := canon (mnem i); i_op := OIdx (IPc16 z ind) |}, []) /\
               (z mod 65536 = num_value n mod 65536)%Z).
Proof. exact numeric_pcr_decodes. Qed.
Print Assumptions C01_numeric_pcr.

(* (9) register lists and register pairs: the probed behaviour of SpecialOperand.translate (regenerated
   tables, one assembly per entry) agrees with the datasheet: PSH/PUL masks per register with the stack's
   own pointer rejected (false upstream: PSHU S -> $00, repair F23), TFR/EXG post-byte = source*16 + dest
   accepted exactly for register pairs of equal size *)
Theorem C01_register_lists_and_pairs :
  pshpul_agrees = true /\ tfrexg_agrees = true /\ special_tables_ok = true.
Proof. split; [exact pshpul_table_agrees_with_datasheet | split; [exact tfrexg_table_agrees_with_datasheet | exact special_tables_are_ok]]. Qed.
Print Assumptions C01_register_lists_and_pairs.

(* (10) from the SOURCE LINE.  f is a statement line in any layout: an optional label, white space, the mnemonic in
   either letter case, white space, the operand field, then anything that does not continue the operand (a comment,
   blanks, the newline) - PC18.well_formed_fields.  l is a numeric literal in any spelling the assembler reads as a
   decimal number (any number of digits, leading zeros too, up to 65535) or a $hex number (one to four digits in
   either case); lit_value l is the positional value of its digits.  i is any row of the regenerated table that is
   not a pseudo operation, a register-list instruction or a branch.  Then the line parses to one statement of that
   mnemonic whose operand, after resolve_symbols, is of the class written - #lit immediate, lit direct or extended
   (interchangeable for the CPU under direct page 0), <lit direct, >lit extended, [lit] extended indirect; translate
   ACCEPTS it whenever the table offers that mode for the mnemonic and the value fits the operand field (the middle
   conjunct); and whenever it is accepted the bytes decode, by the datasheet, as that mnemonic in that mode with
   the value written (the last conjunct). *)
Theorem C01_source_immediate :
  forall f i l tb, well_formed_fields f -> find_instr (upper_t (lf_mn f)) Tables.instructions = Some i ->
    plain_row i -> row_ok i = true -> lit_ok l -> lf_ops f = 35 :: lit_text l ->
  exists n, parse_line (line_of f) = Ok (Some (stmt_of f i (OImmediate (VNum n)))) /\
    resolve_operand (OImmediate (VNum n)) i tb = Ok (OImmediate (VNum n)) /\
    (forall opc, Tables.imm i = Some opc -> (Z.of_N (lit_value l) < 16 ^ Z.of_N (imm_digits i))%Z ->
       exists p, translate_operand (OImmediate (VNum n)) i = Ok p) /\
    forall p, translate_operand (OImmediate (VNum n)) i = Ok p ->
      exists bs, final_bytes p = Ok bs /\ N.of_nat (length bs) = cp_size p /\
        (lit_value l <= 255 /\ decode bs = Some ({| i_mnem := canon (mnem i); i_op := OImm8 (lit_value l) |}, []) \/
         decode bs = Some ({| i_mnem := canon (mnem i); i_op := OImm16 (lit_value l) |}, [])).
Proof. exact source_immediate. Qed.
Print Assumptions C01_source_immediate.

Theorem C01_source_direct_or_extended :
  forall f i l tb, well_formed_fields f -> find_instr (upper_t (lf_mn f)) Tables.instructions = Some i ->
    plain_row i -> row_ok i = true -> lit_ok l -> lf_ops f = lit_text l ->
  exists n o, parse_line (line_of f) = Ok (Some (stmt_of f i (OUnknown (VNum n)))) /\
    resolve_operand (OUnknown (VNum n)) i tb = Ok o /\
    (forall od oe, Tables.dir i = Some od -> Tables.ext i = Some oe -> exists p, translate_operand o i = Ok p) /\
    forall p, translate_operand o i = Ok p ->
      exists bs, final_bytes p = Ok bs /\ N.of_nat (length bs) = cp_size p /\
        (lit_value l <= 255 /\ decode bs = Some ({| i_mnem := canon (mnem i); i_op := ODir (lit_value l) |}, []) \/
         decode bs = Some ({| i_mnem := canon (mnem i); i_op := OExt (lit_value l) |}, [])).
Proof. exact source_address. Qed.
Print Assumptions C01_source_direct_or_extended.

Theorem C01_source_forced_direct :
  forall f i l tb, well_formed_fields f -> find_instr (upper_t (lf_mn f)) Tables.instructions = Some i ->
    plain_row i -> row_ok i = true -> lit_ok l -> lf_ops f = 60 :: lit_text l ->
  exists n, parse_line (line_of f) = Ok (Some (stmt_of f i (OUnknown (VNum n)))) /\
    resolve_operand (OUnknown (VNum n)) i tb = Ok (ODirect (VNum n)) /\
    (forall opc, Tables.dir i = Some opc -> lit_value l <= 255 -> exists p, translate_operand (ODirect (VNum n)) i = Ok p) /\
    forall p, translate_operand (ODirect (VNum n)) i = Ok p ->
      lit_value l <= 255 /\
      exists bs, final_bytes p = Ok bs /\ N.of_nat (length bs) = cp_size p /\
        decode bs = Some ({| i_mnem := canon (mnem i); i_op := ODir (lit_value l) |}, []).
Proof. exact source_forced_direct. Qed.
Print Assumptions C01_source_forced_direct.

Theorem C01_source_forced_extended :
  forall f i l tb, well_formed_fields f -> find_instr (upper_t (lf_mn f)) Tables.instructions = Some i ->
    plain_row i -> row_ok i = true -> lit_ok l -> lf_ops f = 62 :: lit_text l ->
  exists n, parse_line (line_of f) = Ok (Some (stmt_of f i (OUnknown (VNum n)))) /\
    resolve_operand (OUnknown (VNum n)) i tb = Ok (OExtended (VNum n)) /\
    (forall opc, Tables.ext i = Some opc -> exists p, translate_operand (OExtended (VNum n)) i = Ok p) /\
    forall p, translate_operand (OExtended (VNum n)) i = Ok p ->
      exists bs, final_bytes p = Ok bs /\ N.of_nat (length bs) = cp_size p /\
        decode bs = Some ({| i_mnem := canon (mnem i); i_op := OExt (lit_value l) |}, []).
Proof. exact source_forced_extended. Qed.
Print Assumptions C01_source_forced_extended.

Theorem C01_source_extended_indirect :
  forall f i l tb, well_formed_fields f -> find_instr (upper_t (lf_mn f)) Tables.instructions = Some i ->
    plain_row i -> row_ok i = true -> lit_ok l -> lf_ops f = 91 :: lit_text l ++ [93] ->
  exists n, let o := OExtIdx (lf_ops f) (VNum n) (LVal VNone) None in
    parse_line (line_of f) = Ok (Some (stmt_of f i o)) /\
    resolve_operand o i tb = Ok o /\
    (forall opc, Tables.ind i = Some opc -> exists p, translate_operand o i = Ok p) /\
    forall p, translate_operand o i = Ok p ->
      exists bs, final_bytes p = Ok bs /\ N.of_nat (length bs) = cp_size p /\
        decode bs = Some ({| i_mnem := canon (mnem i); i_op := OIdx (IExtInd (lit_value l)) |}, []).
Proof. exact source_indirect. Qed.
Print Assumptions C01_source_extended_indirect.

(* lit,R - a constant offset from X, Y, U or S: 16..32768 in the 8-bit form when it fits a signed byte, else the 16-bit
   form (modulo 65536) ... *)
Theorem C01_source_indexed_offset :
  forall f i l tb nm rg, well_formed_fields f -> find_instr (upper_t (lf_mn f)) Tables.instructions = Some i ->
    plain_row i -> row_ok i = true -> lit_ok l ->
    In (nm, rg) reg_names -> lf_ops f = lit_text l ++ 44 :: nm -> 16 <= lit_value l <= 32768 ->
  exists n, let o := OIndexed (lf_ops f) (LStr (lit_text l)) nm in let o' := OIndexed (lf_ops f) (LVal (VNum n)) nm in
    parse_line (line_of f) = Ok (Some (stmt_of f i o)) /\
    resolve_operand o i tb = Ok o' /\
    forall p, translate_operand o' i = Ok p ->
      exists bs, final_bytes p = Ok bs /\ N.of_nat (length bs) = cp_size p /\
        (decode bs = Some ({| i_mnem := canon (mnem i); i_op := OIdx (IOff8 rg (Z.of_N (lit_value l)) false) |}, []) /\ lit_value l <= 127 \/
         exists z, decode bs = Some ({| i_mnem := canon (mnem i); i_op := OIdx (IOff16 rg z false) |}, []) /\
                   (z mod 65536 = Z.of_N (lit_value l) mod 65536)%Z).
Proof. intros f i l tb nm rg H1 H2 H3 H4 H5. exact (source_indexed_offset f i l tb H1 H2 H3 H4 H5 nm rg). Qed.
Print Assumptions C01_source_indexed_offset.

(* ... and 0..15: no offset byte for 0 (,R), the 5-bit form otherwise; accepted whenever the mnemonic has an indexed mode *)
Theorem C01_source_indexed_small :
  forall f i l tb nm rg opc, well_formed_fields f -> find_instr (upper_t (lf_mn f)) Tables.instructions = Some i ->
    plain_row i -> row_ok i = true -> lit_ok l ->
    In (nm, rg) reg_names -> lf_ops f = lit_text l ++ 44 :: nm -> lit_value l <= 15 -> Tables.ind i = Some opc ->
  exists n, let o := OIndexed (lf_ops f) (LStr (lit_text l)) nm in let o' := OIndexed (lf_ops f) (LVal (VNum n)) nm in
    parse_line (line_of f) = Ok (Some (stmt_of f i o)) /\
    resolve_operand o i tb = Ok o' /\
    exists p bs, translate_operand o' i = Ok p /\ final_bytes p = Ok bs /\ N.of_nat (length bs) = cp_size p /\
      decode bs = Some ({| i_mnem := canon (mnem i);
                           i_op := OIdx (if lit_value l =? 0 then IZero rg false else IOff5 rg (Z.of_N (lit_value l))) |}, []).
Proof. intros f i l tb nm rg opc H1 H2 H3 H4 H5. exact (source_indexed_small f i l tb H1 H2 H3 H5 nm rg opc). Qed.
Print Assumptions C01_source_indexed_small.

(* PARTIAL, named: (a) labels as operands are patched after layout by fix_addresses with fit_value at the
   same width (theorems of C03 give the branch / PCR displacements); the composition "label operand decodes
   to the label's address" is covered by the correspondence grid (label cases), not stated here;
   (b) the text-level step from operand text to the operand classes is a theorem for decimal and $hex literals with
   the prefixes # < > , in brackets, and as the constant offset of X Y U S (10); for the other indexed texts
   (accumulator offsets, auto increment/decrement, [n,R], PCR), %binary / 'c / negative literals and symbols it is
   the executable model MOperands.create_operand / resolve_operand, tied to the code by the correspondence grid. *)

Definition t (s : String.string) : text := text_of_string s.
Local Open Scope string_scope.

(* non-vacuity: the README's own statements, through the whole model, decoded by the datasheet decoder *)
Example C01_nonvacuous :
  exists r, assemble [] [t "POLCAT EQU $A000
"; t " LDA #$FE
"; t " LDB -2,X
"; t " JSR [POLCAT]
"; t " LEAX A,X
"; t " NEG <$10
"; t " LDX #-1
"; t " PSHU S,A
"] = Ok r /\
  map (fun s => option_map (fun x => (i_mnem (fst x), i_op (fst x), snd x)) (decode (r_bytes s))) (tl (r_stmts r)) =
  [Some (mn "LDA", OImm8 254, []); Some (mn "LDB", OIdx (IOff5 RX (-2)), []); Some (mn "JSR", OIdx (IExtInd 40960), []);
   Some (mn "LEAX", OIdx (IAcc AccA RX false), []); Some (mn "NEG", ODir 16, []); Some (mn "LDX", OImm16 65535, []);
   Some (mn "PSHU", ORegList 66, [])].
Proof. eexists. split; vm_compute; reflexivity. Qed.

(* the hypotheses of (10) are met: a labelled line with tabs, a lower-case mnemonic, a mixed-case hex literal and a comment *)
Example C01_source_nonvacuous :
  let f := {| lf_label := t "LOOP"; lf_sp1 := [32; 9]; lf_mn := t "lda"; lf_sp2 := [9]; lf_ops := t "#$fE";
              lf_rest := t " ; a comment
" |} in
  well_formed_fields f /\ lit_ok (Hex (t "fE")) /\ lit_value (Hex (t "fE")) = 254 /\ lit_ok (Dec (t "00254")) /\
  lit_value (Dec (t "00254")) = 254 /\
  exists i, find_instr (upper_t (lf_mn f)) Tables.instructions = Some i /\ plain_row i /\ row_ok i = true.
Proof.
  cbv zeta. split.
  - unfold well_formed_fields. cbn [lf_label lf_sp1 lf_mn lf_sp2 lf_ops lf_rest].
    repeat (split; [first [discriminate | vm_compute; reflexivity]|]).
    split; [right; exists 32, (t "; a comment
"); repeat split; vm_compute; try reflexivity; discriminate | vm_compute; reflexivity].
  - split; [split; [discriminate | split; [vm_compute; reflexivity | cbn; repeat constructor]]|].
    split; [vm_compute; reflexivity|]. split; [split; [discriminate | split; [vm_compute; reflexivity | vm_compute; intros H; discriminate H]]|].
    split; [vm_compute; reflexivity|].
    destruct (find_instr (upper_t (t "lda")) Tables.instructions) as [i|] eqn:E; [|vm_compute in E; discriminate].
    exists i. split; [cbn [lf_mn]; exact E|]. vm_compute in E. injection E as <-. split; [repeat split; vm_compute; reflexivity | vm_compute; reflexivity].
Qed.
