(* C01 — Every instruction statement is encoded as the MC6809 instruction it names. *)
From V Require Import Base.
From V.spec Require Import Spec6809.
From V.model Require Import MText MValues MOperands MProgram.
From V.proofs Require Import PRender PC12.
From V.gen Require Tables.
From Coq Require String.
Import String.StringSyntax.
Local Open Scope N_scope.

(* Specification side: Spec6809.decode, the datasheet opcode map and post-byte grammar, written
   independently of the tool.  [final_bytes p] are the bytes Program.get_binary_array emits for a
   statement whose code package is p; [canon] maps the alias spellings (LSL, BHS, BLO, ...) to one name.
   [row_ok i] is the per-row table obligation, re-proved for EVERY row of the regenerated table on every
   run (theorem C01_table_agrees_with_datasheet). *)

(* (0) the opcode/size table: every opcode of every row decodes, by the datasheet, to the row's own
   mnemonic in that addressing mode, sizes are opcode bytes + operand bytes (false upstream for SWI/SYNC:
   repair F3), and no datasheet instruction is missing from the table *)
Theorem C01_table_agrees_with_datasheet :
  forallb row_ok Tables.instructions = true /\ datasheet_covered = true.
Proof. split; [exact rows_ok | exact datasheet_is_covered]. Qed.
Print Assumptions C01_table_agrees_with_datasheet.

(* (1) inherent *)
Theorem C01_inherent :
  forall i p, row_ok i = true -> Tables.is_pseudo i = false -> translate_operand OInherent i = Ok p ->
  exists bs, final_bytes p = Ok bs /\ N.of_nat (length bs) = cp_size p /\
             decode bs = Some ({| i_mnem := canon (mnem i); i_op := OInh |}, []).
Proof. exact inherent_decodes. Qed.
Print Assumptions C01_inherent.

(* (2) #immediate, 8 and 16 bit, EVERY value: the operand decodes to the value's two's complement at the
   width the datasheet gives the instruction (never the width of the literal's spelling: repair F26) *)
Theorem C01_immediate :
  forall i p v, row_ok i = true -> Tables.is_pseudo i = false -> Tables.is_special i = false ->
  v_is_numeric v = true -> translate_operand (OImmediate v) i = Ok p ->
  exists bs, final_bytes p = Ok bs /\ N.of_nat (length bs) = cp_size p /\
    ((-128 <= value_number v <= 255)%Z /\
     decode bs = Some ({| i_mnem := canon (mnem i); i_op := OImm8 (Z.to_N (value_number v mod 256)) |}, []) \/
     (-32768 <= value_number v <= 65535)%Z /\
     decode bs = Some ({| i_mnem := canon (mnem i); i_op := OImm16 (Z.to_N (value_number v mod 65536)) |}, [])).
Proof. exact immediate_decodes. Qed.
Print Assumptions C01_immediate.

(* (3) direct and extended (after the < / > / value-based choice made by resolve_symbols) *)
Theorem C01_direct :
  forall i p v, row_ok i = true -> Tables.is_pseudo i = false -> v_is_numeric v = true ->
  translate_operand (ODirect v) i = Ok p ->
  (0 <= value_number v <= 255)%Z /\
  exists bs, final_bytes p = Ok bs /\ N.of_nat (length bs) = cp_size p /\
             decode bs = Some ({| i_mnem := canon (mnem i); i_op := ODir (Z.to_N (value_number v)) |}, []).
Proof. exact direct_decodes. Qed.
Print Assumptions C01_direct.

Theorem C01_extended :
  forall i p v, row_ok i = true -> Tables.is_pseudo i = false -> v_is_numeric v = true ->
  translate_operand (OExtended v) i = Ok p ->
  (-32768 <= value_number v <= 65535)%Z /\
  exists bs, final_bytes p = Ok bs /\ N.of_nat (length bs) = cp_size p /\
             decode bs = Some ({| i_mnem := canon (mnem i); i_op := OExt (Z.to_N (value_number v mod 65536)) |}, []).
Proof. exact extended_decodes. Qed.
Print Assumptions C01_extended.

(* (4) [extended indirect] *)
Theorem C01_extended_indirect :
  forall i p s v l r, row_ok i = true -> Tables.is_pseudo i = false -> v_is_numeric v = true ->
  translate_operand (OExtIdx s v l r) i = Ok p ->
  (-32768 <= value_number v <= 65535)%Z /\
  exists bs, final_bytes p = Ok bs /\ N.of_nat (length bs) = cp_size p /\
             decode bs = Some ({| i_mnem := canon (mnem i); i_op := OIdx (IExtInd (Z.to_N (value_number v mod 65536))) |}, []).
Proof. exact extended_indirect_decodes. Qed.
Print Assumptions C01_extended_indirect.

(* (5) indexed without a value: ,R  A/B/D,R  ,R+  ,R++  ,-R  ,--R and the indirect variant of each, for each
   of X Y U S, for EVERY row of the table that has an indexed mode (kernel-evaluated finite sweep over the
   regenerated table: 56 forms x every indexed row) *)
Theorem C01_indexed_static_forms :
  forallb (fun i => Tables.is_pseudo i || static_row_ok i) Tables.instructions = true.
Proof. exact static_forms_ok. Qed.
Print Assumptions C01_indexed_static_forms.

(* (6) 5-bit constant offsets -16..15 (and 0,R = ,R), every register, every indexed row, whatever the
   width hint and mode the literal's spelling gave the value (h, md are universally quantified) *)
Theorem C01_indexed_5bit_offsets :
  forall h md, forallb (fun i => Tables.is_pseudo i || off5_row_ok h md i) Tables.instructions = true.
Proof. exact off5_ok. Qed.
Print Assumptions C01_indexed_5bit_offsets.

(* (7) 8- and 16-bit constant offsets, direct and indirect, EVERY value: the decoded offset is the value
   written (the 16-bit form modulo 65536); upstream emitted a second offset byte for 16-bit-register
   instructions (repair F24) and reserved no bytes for negative offsets (repair F9) *)
Theorem C01_indexed_constant_offsets :
  forall i p n nm rg ind, row_ok i = true -> Tables.is_pseudo i = false -> In (nm, rg) reg_names ->
  n_int n <> 0 -> (ind = false -> negb (is_4_bit n) = true) -> n_int n <= 32768 ->
  translate_indexed ind (LVal (VNum n)) nm i = Ok p ->
  exists bs, final_bytes p = Ok bs /\ N.of_nat (length bs) = cp_size p /\
    (decode bs = Some ({| i_mnem := canon (mnem i); i_op := OIdx (IOff8 rg (num_value n) ind) |}, []) /\ (-128 <= num_value n <= 127)%Z \/
     exists z, decode bs = Some ({| i_mnem := canon (mnem i); i_op := OIdx (IOff16 rg z ind) |}, []) /\
               (z mod 65536 = num_value n mod 65536)%Z).
Proof. exact offset_decodes. Qed.
Print Assumptions C01_indexed_constant_offsets.

(* (8) a bare numeric n,PCR / [n,PCR]: the displacement is n (false upstream: repair F27) *)
Theorem C01_numeric_pcr :
  forall i p n ind, row_ok i = true -> Tables.is_pseudo i = false ->
  translate_indexed ind (LVal (VNum n)) t_PCR i = Ok p ->
  exists bs, final_bytes p = Ok bs /\ N.of_nat (length bs) = cp_size p /\
    (decode bs = Some ({| i_mnem := canon (mnem i); i_op := OIdx (IPc8 (num_value n) ind) |}, []) /\ (-128 <= num_value n <= 127)%Z \/
     exists z, decode bs = Some ({| i_mnem := canon (mnem i); i_op := OIdx (IPc16 z ind) |}, []) /\
               (z mod 65536 = num_value n mod 65536)%Z).
Proof. exact numeric_pcr_decodes. Qed.
Print Assumptions C01_numeric_pcr.

(* (9) register lists and register pairs: the probed behaviour of SpecialOperand.translate (regenerated
   tables, one assembly per entry) agrees with the datasheet: PSH/PUL masks per register with the stack's
   own pointer rejected (false upstream: PSHU S -> $00, repair F23), TFR/EXG post-byte = source*16 + dest
   accepted exactly for register pairs of equal size *)
Theorem C01_register_lists_and_pairs :
  pshpul_agrees = true /\ tfrexg_agrees = true /\ special_tables_ok = true.
Proof. split; [exact pshpul_table_agrees_with_datasheet | split; [exact tfrexg_table_agrees_with_datasheet | exact special_tables_are_ok]]. Qed.
Print Assumptions C01_register_lists_and_pairs.

(* PARTIAL, named: (a) labels as operands are patched after layout by fix_addresses with fit_value at the
   same width (theorems of C03 give the branch / PCR displacements); the composition "label operand decodes
   to the label's address" is covered by the correspondence grid (label cases), not stated here;
   (b) the text-level step from operand text to the operand classes above (Operand.create_from_str /
   resolve_symbols) is the executable model MOperands.create_operand / resolve_operand, tied to the code by
   the correspondence grid; (c) known findings label_as_index_offset, forced_direct_label,
   indirect_label_expr are outside these classes. *)

Definition t (s : String.string) : text := text_of_string s.
Local Open Scope string_scope.

(* non-vacuity: the README's own statements, through the whole model, decoded by the datasheet decoder *)
Example C01_nonvacuous :
  exists r, assemble [] [t "POLCAT EQU $A000
"; t " LDA #$FE
"; t " LDB -2,X
"; t " JSR [POLCAT]
"; t " LEAX A,X
"; t " NEG <$10
"; t " LDX #-1
"; t " PSHU S,A
"] = Ok r /\
  map (fun s => option_map (fun x => (i_mnem (fst x), i_op (fst x), snd x)) (decode (r_bytes s))) (tl (r_stmts r)) =
  [Some (mn "LDA", OImm8 254, []); Some (mn "LDB", OIdx (IOff5 RX (-2)), []); Some (mn "JSR", OIdx (IExtInd 40960), []);
   Some (mn "LEAX", OIdx (IAcc AccA RX false), []); Some (mn "NEG", ODir 16, []); Some (mn "LDX", OImm16 65535, []);
   Some (mn "PSHU", ORegList 66, [])].
Proof. eexists. split; vm_compute; reflexivity. Qed.
