(* C07 — Disk images round-trip every file exactly, wherever its granules lie. *)
From V Require Import Base.
From V.spec Require Import SpecDisk.
From V.model Require Import MDisk.
From V.proofs Require Import PDiskAlloc PDiskRead PDiskWrite PDiskFlat PDiskProps.
Local Open Scope N_scope.

(* (a) For EVERY list of files the writer stores on a blank image (i.e. that fits), under ANY fill
   order made of granule numbers, the model reader (and the spec view SpecDisk.files) of the flat
   161,280-byte image returns the same files in the same order: name = first 8 characters, upper-cased,
   stored padding removed; extension = first 3, upper-cased, space padded; type, ASCII flag and data
   unchanged; load/entry addresses unchanged for machine-language files (the format stores none for
   BASIC/ASCII files: they read back as 0).  No hypothesis on length or content. *)
Theorem C07_roundtrip :
  forall (order : list N) (fs : list dfile) (st : state),
    in_range order -> Forall valid_dfile fs ->
    MDisk.add_files order [] fs = Ok st ->
    MDisk.list_files (MDisk.image_of st) = Ok (map MDisk.norm fs) /\
    SpecDisk.files (MDisk.image_of st) = Some (map MDisk.norm fs).
Proof. exact disk_roundtrip. Qed.
Print Assumptions C07_roundtrip.

(* (b) Listing ANY 161,280-byte image on which the spec view is defined (every used directory entry
   has a chain inside 0..67 ending in $C0+s, a consistent last-sector count, and a stream that decodes
   in CHAIN ORDER — chains in any order, not adjacent, crossing track 17) returns exactly those files.
   Domain restrictions of the model reader, stated as hypotheses: directory names are 7-bit ASCII
   (Python decodes them as ASCII) and no ASCII-kind file ends in a $C0 (zero-sector) terminator. *)
Theorem C07_reads_any_valid_image_partial :
  forall (img : list byte) (fs : list dfile),
    N.of_nat (length img) = IMAGE_SIZE -> SpecDisk.files img = Some fs -> reader_domain img ->
    MDisk.list_files img = Ok fs.
Proof. exact reads_any_valid_image. Qed.
Print Assumptions C07_reads_any_valid_image_partial.

(* non-vacuity of (a): a file of 4603 bytes (data ends with granule 33, the next link is granule 34
   on the other side of the directory track) followed by a zero-length BASIC file *)
Example C07_nonvacuous :
  let f1 := {| d_name := [104;105]; d_ext := [98]; d_type := 2; d_ascii := 0; d_load := 3584; d_exec := 3600;
               d_data := repeat 7 4603 |} in
  let f2 := {| d_name := [84]; d_ext := []; d_type := 0; d_ascii := 0; d_load := 1; d_exec := 2; d_data := [] |} in
  exists st, MDisk.add_files default_order [] [f1; f2] = Ok st /\ map snd st = [[32; 33; 34]; [35]] /\
             in_range default_order /\ Forall valid_dfile [f1; f2] /\
             map d_name (map MDisk.norm [f1; f2]) = [[72;73]; [84]].
Proof.
  eexists. split; [vm_compute; reflexivity|]. split; [reflexivity|]. split; [apply default_order_ok|].
  split; [repeat constructor | reflexivity].
Qed.
