(* C18 — Relocating, renaming or reformatting a program changes output only as it must. *)
From V Require Import Base.
From V.model Require Import MText MValues MOperands MProgram.
From V.proofs Require Import PC18.
From V.gen Require Tables.
From Coq Require String.
Import String.StringSyntax.
Local Open Scope N_scope.

(* (a) REFORMATTING.  A statement line is  label sp1 mnemonic sp2 operand rest.  For EVERY such line (any label
   over [A-Za-z0-9_@] or none, any non-empty runs of white space sp1 / sp2, any mnemonic of the table in any
   letter case, any operand over the operand alphabet, any rest that starts outside that alphabet: a comment,
   trailing blanks, the newline, nothing) the parsed statement is a function of the label, the upper-cased
   mnemonic and the operand alone.  (FCC, whose operand is delimited rather than white-space terminated, is
   C05_fcc_parses_to_its_characters.) *)
Theorem C18_statement_is_label_mnemonic_operand :
  forall f i, well_formed_fields f -> find_instr (upper_t (lf_mn f)) Tables.instructions = Some i ->
    Tables.is_string_define i = false ->
    parse_line (line_of f) =
      (do o <- as_parse_error (create_operand (lf_ops f) i); Ok (Some (mk_stmt (lf_label f) i o (lf_ops f)))).
Proof. exact parse_line_fields. Qed.
Print Assumptions C18_statement_is_label_mnemonic_operand.

(* hence: changing the amount of white space between fields, changing or removing the comment, or changing the
   letter case of the mnemonic changes nothing that is parsed - and therefore no byte, address or symbol *)
Theorem C18_reformatting_changes_nothing :
  forall f g i, well_formed_fields f -> well_formed_fields g ->
    lf_label f = lf_label g -> upper_t (lf_mn f) = upper_t (lf_mn g) -> lf_ops f = lf_ops g ->
    find_instr (upper_t (lf_mn f)) Tables.instructions = Some i -> Tables.is_string_define i = false ->
    parse_line (line_of f) = parse_line (line_of g).
Proof. exact reformatting_changes_nothing. Qed.
Print Assumptions C18_reformatting_changes_nothing.

(* blank lines and comment lines are no statements: adding or removing them changes nothing *)
Theorem C18_blank_line_ignored :
  forall line, mem_c 10 (removelast line) = false -> all_c is_space line = true -> parse_line line = Ok None.
Proof. exact blank_line_ignored. Qed.
Print Assumptions C18_blank_line_ignored.

Theorem C18_comment_line_ignored :
  forall sp txt, forallb is_space sp = true -> mem_c 10 (removelast (sp ++ 59 :: txt)) = false ->
    parse_line (sp ++ 59 :: txt) = Ok None.
Proof. exact comment_line_ignored. Qed.
Print Assumptions C18_comment_line_ignored.

Theorem C18_ignored_line_adds_no_statement :
  forall line rest, parse_line line = Ok None -> parse_lines (line :: rest) = parse_lines rest.
Proof. exact parse_lines_skips. Qed.
Print Assumptions C18_ignored_line_adds_no_statement.

(* (b) RELOCATION, at the address-fixing pass.  Relative displacements do not change at all: a short or long
   branch is computed from statement SIZES only, ... *)
Theorem C18_branch_ignores_addresses :
  forall ss ss' this s,
    map (fun x => cp_size (s_pkg x)) ss = map (fun x => cp_size (s_pkg x)) ss' ->
    is_relative_op (s_operand s) = true -> fix_stmt ss this s = fix_stmt ss' this s.
Proof. exact branch_ignores_addresses. Qed.
Print Assumptions C18_branch_ignores_addresses.

(* ... a label,PCR displacement is the difference of two addresses of the program, so moving every address by D
   leaves it as it was, ... *)
Theorem C18_pcr_ignores_relocation :
  forall ss ss' this s s' D,
    (forall k a, addr_of ss k = Ok a -> addr_of ss' k = Ok (a + D)) ->
    is_relative_op (s_operand s) = false ->
    (match operand_value (s_operand s) with VLR _ _ _ => True | _ => False end) ->
    (forall l op r m, operand_left (s_operand s) <> Some (LVal (VExpr l op r m true))) ->
    cp_needs (s_pkg s) = true -> addr_offset (s_pkg s) = false ->
    fix_stmt ss this s = Ok s' -> fix_stmt ss' this s = Ok s'.
Proof. exact pcr_ignores_relocation. Qed.
Print Assumptions C18_pcr_ignores_relocation.

(* ... and an absolute reference to a label emits that label's address (high byte first): it changes by exactly
   D when the program moves by D. *)
Theorem C18_absolute_reference_is_the_address :
  forall ss this s s' k t a,
    is_relative_op (s_operand s) = false -> operand_value (s_operand s) = VAddr k ->
    cp_needs (s_pkg s) = false ->
    (match s_operand s with OImmediate _ => imm_digits (s_instr s) | OPseudo _ _ => if Tables.is_multi_byte (s_instr s) then 2 else 4
                          | ODirect _ => 2 | _ => 4 end) = 4 ->
    nth_stmt ss k = Some t -> cp_addr (s_pkg t) = VNum a -> n_neg a = false ->
    fix_stmt ss this s = Ok s' ->
    n_int a <= 65535 /\ emit_value (cp_add (s_pkg s')) = Ok [n_int a / 256; n_int a mod 256].
Proof. exact absolute_label_reference_emits_address. Qed.
Print Assumptions C18_absolute_reference_is_the_address.

(* PARTIAL.  What is NOT proved here and is decided by the metamorphic correspondence check of harness/asm_meta.py
   on every run (relocation by D, label bijections, layout variants, appended suffixes, each compared on the
   implementation AND on the extracted model): that the SIZES chosen by the PC-relative size loop do not depend
   on the origin, on label names or on appended statements (the program-level statements of relocation,
   renaming and suffix invariance). *)

Definition t (s : String.string) : text := text_of_string s.
Local Open Scope string_scope.

(* non-vacuity, through the whole assembler: the same program in two layouts (tabs, lower-case mnemonics,
   comments, blank and comment lines), at two origins, and with renamed labels *)
Example C18_nonvacuous :
  (exists r r', assemble [] [t " ORG $1000
"; t "START LDX #TABLE
"; t "LOOP LDA ,X+
"; t " BNE LOOP
"; t " LEAX TABLE,PCR
"; t " JMP START
"; t "TABLE FDB START
"] = Ok r /\
   assemble [] [t "	org	$1000   ; origin
"; t "; a comment line
"; t "START	ldx  #TABLE	load the table
"; t "
"; t "LOOP    Lda   ,X+ ; next
"; t "	bne LOOP
"; t "  leax TABLE,PCR
"; t "  jmp START   back
"; t "TABLE fdb START
"] = Ok r' /\ r_image r = r_image r' /\ r_syms r = r_syms r' /\ map r_addr (r_stmts r) = map r_addr (r_stmts r')) /\
  (exists r r', assemble [] [t " ORG $1000
"; t "START LDX #TABLE
"; t "LOOP LDA ,X+
"; t " BNE LOOP
"; t " LEAX TABLE,PCR
"; t " JMP START
"; t "TABLE FDB START
"] = Ok r /\
   assemble [] [t " ORG $3000
"; t "BEGIN LDX #DATA@1
"; t "AGAIN LDA ,X+
"; t " BNE AGAIN
"; t " LEAX DATA@1,PCR
"; t " JMP BEGIN
"; t "DATA@1 FDB BEGIN
"] = Ok r' /\
   r_image r  = [142; 16; 13; 166; 128; 38; 252; 48; 140; 3; 126; 16; 0; 16; 0] /\
   r_image r' = [142; 48; 13; 166; 128; 38; 252; 48; 140; 3; 126; 48; 0; 48; 0]).
Proof.
  split.
  - eexists. eexists. split; [vm_compute; reflexivity|]. split; [vm_compute; reflexivity|]. vm_compute. repeat split.
  - eexists. eexists. split; [vm_compute; reflexivity|]. split; [vm_compute; reflexivity|]. vm_compute. repeat split.
Qed.
