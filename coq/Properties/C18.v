(* C18 — Relocating, renaming or reformatting a program changes output only as it must. *)
From V Require Import Base.
From V.model Require Import MText MValues MOperands MProgram.
From V.proofs Require Import PC18 PC01text PC18reloc.
From V.gen Require Tables.
From Coq Require String.
Import String.StringSyntax.
Local Open Scope N_scope.

(* (a) REFORMATTING.  A statement line is  label sp1 mnemonic sp2 operand rest.  For EVERY such line (any label
   over [A-Za-z0-9_@] or none, any non-empty runs of white space sp1 / sp2, any mnemonic of the table in any
   letter case, any operand over the operand alphabet, any rest that starts outside that alphabet: a comment,
   trailing blanks, the newline, nothing) the parsed statement is a function of the label, the upper-cased
   mnemonic and the operand alone.  (FCC, whose operand is delimited rather than white-space terminated, is
   C05_fcc_parses_to_its_characters.) *)
Theorem C18_statement_is_label_mnemonic_operand :
  forall f i, well_formed_fields f -> find_instr (upper_t (lf_mn f)) Tables.instructions = Some i ->
    Tables.is_string_define i = false ->
    parse_line (line_of f) =
      (do o <- as_parse_error (create_operand (lf_ops f) i); Ok (Some (mk_stmt (lf_label f) i o (lf_ops f)))).
Proof. exact parse_line_fields. Qed.
Print Assumptions C18_statement_is_label_mnemonic_operand.

(* hence: changing the amount of white space between fields, changing or removing the comment, or changing the
   letter case of the mnemonic changes nothing that is parsed - and therefore no byte, address or symbol *)
Theorem C18_reformatting_changes_nothing :
  forall f g i, well_formed_fields f -> well_formed_fields g ->
    lf_label f = lf_label g -> upper_t (lf_mn f) = upper_t (lf_mn g) -> lf_ops f = lf_ops g ->
    find_instr (upper_t (lf_mn f)) Tables.instructions = Some i -> Tables.is_string_define i = false ->
    parse_line (line_of f) = parse_line (line_of g).
Proof. exact reformatting_changes_nothing. Qed.
Print Assumptions C18_reformatting_changes_nothing.

(* blank lines and comment lines are no statements: adding or removing them changes nothing *)
Theorem C18_blank_line_ignored :
  forall line, mem_c 10 (removelast line) = false -> all_c is_space line = true -> parse_line line = Ok None.
Proof. exact blank_line_ignored. Qed.
Print Assumptions C18_blank_line_ignored.

Theorem C18_comment_line_ignored :
  forall sp txt, forallb is_space sp = true -> mem_c 10 (removelast (sp ++ 59 :: txt)) = false ->
    parse_line (sp ++ 59 :: txt) = Ok None.
Proof. exact comment_line_ignored. Qed.
Print Assumptions C18_comment_line_ignored.

Theorem C18_ignored_line_adds_no_statement :
  forall line rest, parse_line line = Ok None -> parse_lines (line :: rest) = parse_lines rest.
Proof. exact parse_lines_skips. Qed.
Print Assumptions C18_ignored_line_adds_no_statement.

(* (b) RELOCATION, at the address-fixing pass.  Relative displacements do not change at all: a short or long
   branch is computed from statement SIZES only, ... *)
Theorem C18_branch_ignores_addresses :
  forall ss ss' this s,
    map (fun x => cp_size (s_pkg x)) ss = map (fun x => cp_size (s_pkg x)) ss' ->
    is_relative_op (s_operand s) = true -> fix_stmt ss this s = fix_stmt ss' this s.
Proof. exact branch_ignores_addresses. Qed.
Print Assumptions C18_branch_ignores_addresses.

(* ... a label,PCR displacement is the difference of two addresses of the program, so moving every address by D
   leaves it as it was, ... *)
Theorem C18_pcr_ignores_relocation :
  forall ss ss' this s s' D,
    (forall k a, addr_of ss k = Ok a -> addr_of ss' k = Ok (a + D)) ->
    is_relative_op (s_operand s) = false ->
    (match operand_value (s_operand s) with VLR _ _ _ => True | _ => False end) ->
    (forall l op r m, operand_left (s_operand s) <> Some (LVal (VExpr l op r m true))) ->
    cp_needs (s_pkg s) = true -> addr_offset (s_pkg s) = false ->
    fix_stmt ss this s = Ok s' -> fix_stmt ss' this s = Ok s'.
Proof. exact pcr_ignores_relocation. Qed.
Print Assumptions C18_pcr_ignores_relocation.

(* ... and an absolute reference to a label emits that label's address (high byte first): it changes by exactly
   D when the program moves by D. *)
Theorem C18_absolute_reference_is_the_address :
  forall ss this s s' k t a,
    is_relative_op (s_operand s) = false -> operand_value (s_operand s) = VAddr k ->
    cp_needs (s_pkg s) = false ->
    (match s_operand s with OImmediate _ => imm_digits (s_instr s) | OPseudo _ _ => if Tables.is_multi_byte (s_instr s) then 2 else 4
                          | ODirect _ => 2 | _ => 4 end) = 4 ->
    nth_stmt ss k = Some t -> cp_addr (s_pkg t) = VNum a -> n_neg a = false ->
    fix_stmt ss this s = Ok s' ->
    n_int a <= 65535 /\ emit_value (cp_add (s_pkg s')) = Ok [n_int a / 256; n_int a mod 256].
Proof. exact absolute_label_reference_emits_address. Qed.
Print Assumptions C18_absolute_reference_is_the_address.

(* (c) RELOCATION OF A WHOLE PROGRAM.  Two programs whose first line is an ORG statement in any layout with a
   literal operand in any decimal or $hex spelling (origins a and a', D = a' - a), followed by the same statements,
   none of them an ORG or an INCLUDE (INCLUDE is textual inclusion: C19).  If both assemble and every label
   expression of the program is a sum or a difference (reloc_ok: + or - only, and a PC-relative target holds exactly
   one label positively - label, label+n, n+label, label-n; the quantifier of the property), then, statement by
   statement (relation R D): same label, mnemonic, SIZE, opcode and post byte - the size loop never looks at an
   address -, the address moves by exactly D, and the operand value moves by  coef_stmt * D  where coef_stmt is 0 for a
   branch, 0 for a label,PCR / label+-n,PCR operand, 0 for an operand without a label and for a difference of two
   labels, 1 for an absolute reference label / label+n / n+label / label-n (also as an index offset); with
   coefficient 0 the operand bytes are identical.  In the symbol table a label moves by D, an EQU constant stays, an
   EQU of label arithmetic moves by its coefficient (sym_rel).  Proof: proofs/PC18reloc.v - a simulation of the two
   runs through INCLUDE expansion, the symbol passes, resolve, translate, the size loop, the address pass,
   fix_addresses and the symbol back-patch. *)
Theorem C18_program_relocation :
  forall fm f f' i l l' rest,
    well_formed_fields f -> well_formed_fields f' ->
    find_instr (upper_t (lf_mn f)) Tables.instructions = Some i -> find_instr (upper_t (lf_mn f')) Tables.instructions = Some i ->
    Tables.is_origin i = true -> lf_label f' = lf_label f -> lit_ok l -> lit_ok l' -> lf_ops f = lit_text l -> lf_ops f' = lit_text l' ->
    Forall movable rest ->
    exists o o', parse_line (line_of f) = Ok (Some o) /\ parse_line (line_of f') = Ok (Some o') /\
      forall ss tb ss' tb', translate_program fm (o :: rest) = Ok (ss, tb) -> translate_program fm (o' :: rest) = Ok (ss', tb') ->
        Forall reloc_ok ss ->
        let D := (Z.of_N (lit_value l') - Z.of_N (lit_value l))%Z in
        Forall2 (R D) ss ss' /\
        exists tb0, backpatch ss tb0 = Ok tb /\ backpatch ss' tb0 = Ok tb' /\ (sym_ok tb0 -> rel3 (sym_rel D) tb0 tb tb').
Proof. exact program_relocation. Qed.
Print Assumptions C18_program_relocation.

(* what R means for what is listed and emitted: size, label and mnemonic unchanged, the listing address moved by D, and
   - whenever the coefficient is 0 - exactly the same bytes *)
Theorem C18_relocated_statement_observed :
  forall D t t' r r', R D t t' -> stmt_result t = Ok r -> stmt_result t' = Ok r' ->
    r_size r' = r_size r /\ r_label r' = r_label r /\ r_mn r' = r_mn r /\
    Z.of_N (r_addr r') = (Z.of_N (r_addr r) + D)%Z /\
    ((coef_stmt t * D = 0)%Z -> r_bytes r' = r_bytes r).
Proof. exact R_results. Qed.
Print Assumptions C18_relocated_statement_observed.

(* the coefficient, case by case: branches and PC-relative operands 0; otherwise the label content of the operand value *)
Theorem C18_relocation_coefficients :
  (forall s, is_relative_op (s_operand s) = true -> coef_stmt s = 0%Z) /\
  (forall s, is_relative_op (s_operand s) = false -> addr_offset (s_pkg s) = false -> cp_needs (s_pkg s) = true -> coef_stmt s = 0%Z) /\
  (forall s, is_relative_op (s_operand s) = false -> cp_needs (s_pkg s) = false -> coef_stmt s = coef_value (operand_value (s_operand s))) /\
  (forall k, coef_value (VAddr k) = 1%Z) /\
  (forall k c m, coef_value (VExpr (VAddr k) 43 (VNum c) m true) = 1%Z) /\
  (forall k c m, coef_value (VExpr (VNum c) 43 (VAddr k) m true) = 1%Z) /\
  (forall k c m, coef_value (VExpr (VAddr k) 45 (VNum c) m true) = 1%Z) /\
  (forall k j m, coef_value (VExpr (VAddr k) 45 (VAddr j) m true) = 0%Z) /\
  (forall c, coef_value (VNum c) = 0%Z) /\ coef_value VNone = 0%Z /\ (forall a b m, coef_value (VLR a b m) = 0%Z) /\
  (forall x, coef_value (VStr x) = 0%Z) /\ (forall x, coef_value (VMulti x) = 0%Z).
Proof.
  split; [exact coef_branch|]. split; [exact coef_pcr|]. split; [exact coef_plain|]. exact coef_value_cases.
Qed.
Print Assumptions C18_relocation_coefficients.

(* PARTIAL.  What is NOT proved here and is decided by the metamorphic correspondence check of harness/asm_meta.py
   on every run (label bijections, appended suffixes, each compared on the implementation AND on the extracted
   model): the program-level statements of renaming and suffix invariance; relocation of programs with several ORGs. *)

Definition t (s : String.string) : text := text_of_string s.
Local Open Scope string_scope.

(* non-vacuity, through the whole assembler: the same program in two layouts (tabs, lower-case mnemonics,
   comments, blank and comment lines), at two origins, and with renamed labels *)
Example C18_nonvacuous :
  (exists r r', assemble [] [t " ORG $1000
"; t "START LDX #TABLE
"; t "LOOP LDA ,X+
"; t " BNE LOOP
"; t " LEAX TABLE,PCR
"; t " JMP START
"; t "TABLE FDB START
"] = Ok r /\
   assemble [] [t "	org	$1000   ; origin
"; t "; a comment line
"; t "START	ldx  #TABLE	load the table
"; t "
"; t "LOOP    Lda   ,X+ ; next
"; t "	bne LOOP
"; t "  leax TABLE,PCR
"; t "  jmp START   back
"; t "TABLE fdb START
"] = Ok r' /\ r_image r = r_image r' /\ r_syms r = r_syms r' /\ map r_addr (r_stmts r) = map r_addr (r_stmts r')) /\
  (exists r r', assemble [] [t " ORG $1000
"; t "START LDX #TABLE
"; t "LOOP LDA ,X+
"; t " BNE LOOP
"; t " LEAX TABLE,PCR
"; t " JMP START
"; t "TABLE FDB START
"] = Ok r /\
   assemble [] [t " ORG $3000
"; t "BEGIN LDX #DATA@1
"; t "AGAIN LDA ,X+
"; t " BNE AGAIN
"; t " LEAX DATA@1,PCR
"; t " JMP BEGIN
"; t "DATA@1 FDB BEGIN
"] = Ok r' /\
   r_image r  = [142; 16; 13; 166; 128; 38; 252; 48; 140; 3; 126; 16; 0; 16; 0] /\
   r_image r' = [142; 48; 13; 166; 128; 38; 252; 48; 140; 3; 126; 48; 0; 48; 0]).
Proof.
  split.
  - eexists. eexists. split; [vm_compute; reflexivity|]. split; [vm_compute; reflexivity|]. vm_compute. repeat split.
  - eexists. eexists. split; [vm_compute; reflexivity|]. split; [vm_compute; reflexivity|]. vm_compute. repeat split.
Qed.

(* the hypotheses of (c) are met: a program with an absolute reference, label arithmetic, a branch, a PC-relative
   operand, data holding an address and EQUs, assembled at $1000 and at 8192; every address moves by 4096 *)
Definition reloc_tail : list text := [t "START LDX #TABLE
"; t "LOOP LDA ,X+
"; t " BNE LOOP
"; t " LEAX TABLE+1,PCR
"; t " LDD TABLE+2
"; t " JMP START
"; t "TABLE FCB 1,2,3
"; t " FDB LOOP
"; t "LEN EQU TABLE-START
"; t "LAST EQU TABLE+2
"].

Definition reloc_rest : list stmt := Eval vm_compute in match parse_lines reloc_tail with Ok r => r | _ => [] end.
Definition reloc_run (line : text) : res (list stmt * symtab) :=
  match parse_line line with Ok (Some o) => translate_program [] (o :: reloc_rest) | _ => Diag 0 end.
Definition reloc_at_1000 : list stmt * symtab :=
  Eval vm_compute in match reloc_run (t " ORG $1000
") with Ok r => r | _ => ([], []) end.
Definition reloc_at_8192 : list stmt * symtab :=
  Eval vm_compute in match reloc_run (t "  org 8192 ; moved
") with Ok r => r | _ => ([], []) end.

Example C18_relocation_nonvacuous :
  parse_lines reloc_tail = Ok reloc_rest /\ Forall movable reloc_rest /\
  reloc_run (t " ORG $1000
") = Ok reloc_at_1000 /\ reloc_run (t "  org 8192 ; moved
") = Ok reloc_at_8192 /\
  Forall reloc_ok (fst reloc_at_1000) /\ length (fst reloc_at_1000) = 11%nat /\
  map (fun s => v_int (cp_addr (s_pkg s))) (fst reloc_at_8192) = map (fun s => v_int (cp_addr (s_pkg s)) + 4096) (fst reloc_at_1000).
Proof.
  split; [vm_compute; reflexivity|]. split.
  - apply (movable_of reloc_tail); vm_compute; reflexivity.
  - split; [vm_compute; reflexivity|]. split; [vm_compute; reflexivity|]. split.
    + assert (Hall : forallb reloc_okb (fst reloc_at_1000) = true) by (vm_compute; reflexivity).
      rewrite forallb_forall in Hall. apply Forall_forall. intros s Hs. apply reloc_okb_ok. exact (Hall s Hs).
    + split; vm_compute; reflexivity.
Qed.
