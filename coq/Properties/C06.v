(* C06 — Cassette images round-trip every file exactly. *)
From V Require Import Base.
From V.spec Require Import SpecTape.
From V.model Require Import MCassette.
From V.proofs Require Import PCassetteW PCassetteR.
Local Open Scope N_scope.

(* (a) write-then-list returns the same files, in order, with the same type, data type, addresses
   and data; the name is the stored 8 bytes (first 8 characters, space padded — exact case).
   Hypotheses: 7-bit ASCII names, 16-bit addresses, and NO FILE WITH EMPTY DATA (see (c)). *)
Theorem C06_roundtrip_partial :
  forall fs : list cfile,
    Forall valid_cfile fs -> Forall (fun f => c_data f <> []) fs ->
    MCassette.list_files (MCassette.write fs) = Ok (map MCassette.norm fs).
Proof. exact roundtrip. Qed.
Print Assumptions C06_roundtrip_partial.

(* (b) listing ANY well-formed stream (arbitrary gap/leader lengths, any 1..255 chunking,
   gaps between data blocks, any gap flag) returns exactly the files it contains. *)
Theorem C06_reads_any_wellformed_stream_partial :
  forall bs fs, wf_stream bs fs -> Forall (fun f => c_data f <> []) fs ->
    MCassette.list_files bs = Ok fs.
Proof. exact reads_any_wellformed_stream. Qed.
Print Assumptions C06_reads_any_wellformed_stream_partial.

(* (c) The full statement (without the non-empty-data hypothesis) is FALSE of the faithful model:
   a file with empty data, and every file after it, is missing from the listing.
   Known finding tape_empty_file; the witness is replayed on the implementation on every run. *)
Theorem C06_roundtrip_refuted :
  exists fs, Forall valid_cfile fs /\
             MCassette.list_files (MCassette.write fs) = Ok (map MCassette.norm (firstn 1 fs)) /\
             MCassette.list_files (MCassette.write fs) <> Ok (map MCassette.norm fs).
Proof. exact roundtrip_empty_data_refuted. Qed.
Print Assumptions C06_roundtrip_refuted.

(* non-vacuity of (b): a hand-built stream with a 3-byte leader, two data blocks of 2 and 1 bytes
   separated by a gap — not something the writer produces. *)
Example C06_general_stream_nonvacuous :
  let f := {| c_name := [65;66;67;68;69;70;71;72]; c_type := 1; c_dtype := 255;
              c_load := 4660; c_exec := 22136; c_data := [85;60;1] |} in
  let bs := [85;85;85] ++ block 0 (gen_header f 255) ++ [0;85] ++ block 1 [85;60] ++ [85;0;85] ++
            block 1 [1] ++ eof_block ++ [0;0] in
  MCassette.list_files bs = Ok [f] /\ SpecTape.parse bs = Some [(f, 255)].
Proof. vm_compute. split; reflexivity. Qed.
