(* C02 — Listing addresses, symbol values and the emitted image agree. *)
From V Require Import Base.
From V.model Require Import MText MValues MOperands MProgram.
From V.proofs Require Import PLayout PFrames PC02 PSize PC02sym.
From V.gen Require Tables.
From Coq Require String.
Import String.StringSyntax.
Local Open Scope N_scope.

(* (a) For EVERY accepted program (any file map, any source lines): every statement other than an ORG
   is listed exactly r_size bytes after the statement before it (r_size = the space the listing
   reserves; r_addr = the listing address), whatever the mix of instruction forms, data directives,
   labels, forward/backward references and PCR statements whose sizes depend on each other. *)
Theorem C02_addresses_advance :
  forall fm lines r, MProgram.assemble fm lines = Ok r ->
  forall i a b, nth_error (r_stmts r) i = Some a -> nth_error (r_stmts r) (S i) = Some b ->
    text_eqb (r_mn b) ORG_t = false -> r_addr b = r_addr a + r_size a.
Proof. exact addresses_advance. Qed.
Print Assumptions C02_addresses_advance.

(* (b) the image is the in-order concatenation of the statements' bytes *)
Theorem C02_image_is_concatenation :
  forall fm lines r, MProgram.assemble fm lines = Ok r -> r_image r = concat (map r_bytes (r_stmts r)).
Proof. exact image_is_concatenation. Qed.
Print Assumptions C02_image_is_concatenation.

(* (c) hence, when every statement emits exactly the bytes the listing reserves for it (the per-form
   obligation of C12) and no ORG follows the first statement, loading the image at the address of the
   first statement places each statement's bytes at its listing address *)
Theorem C02_image_offsets :
  forall fm lines r, MProgram.assemble fm lines = Ok r ->
  Forall (fun s => r_size s = N.of_nat (length (r_bytes s))) (r_stmts r) ->
  (forall j b, (0 < j)%nat -> nth_error (r_stmts r) j = Some b -> text_eqb (r_mn b) ORG_t = false) ->
  forall k a0 s, nth_error (r_stmts r) 0 = Some a0 -> nth_error (r_stmts r) k = Some s ->
    r_addr s = r_addr a0 + N.of_nat (length (concat (map r_bytes (firstn k (r_stmts r))))).
Proof. exact image_offsets. Qed.
Print Assumptions C02_image_offsets.

(* (d) a label defined twice is rejected: an accepted program has pairwise distinct labels *)
Theorem C02_duplicate_labels_rejected :
  forall fm lines r, MProgram.assemble fm lines = Ok r -> NoDup (nonempty_labels (map r_label (r_stmts r))).
Proof. exact accepted_labels_unique. Qed.
Print Assumptions C02_duplicate_labels_rejected.

(* (e) a symbol that is never defined is rejected wherever it is resolved *)
Theorem C02_undefined_symbol_rejected :
  forall s m tb, MValues.lookup s tb = None -> MValues.resolve_value (VSym s m) tb = Diag 22.
Proof. intros s m tb H. unfold resolve_value, resolve_symbol, get_symbol. now rewrite H. Qed.
Print Assumptions C02_undefined_symbol_rejected.

Definition t (s : String.string) : text := text_of_string s.
Local Open Scope string_scope.

(* (f) THE FIRST AND THE LAST SENTENCE of the property, for every accepted program, WITHOUT ANY HYPOTHESIS: loading the
   emitted image at the reported origin (0 when no ORG precedes the code) places the bytes of every statement that
   has any at the address the listing shows for it - whatever ORGs the program contains, because an ORG that
   would tear the image apart is rejected (false upstream: code before ORG and later ORGs were accepted and the
   last ORG was reported; repair F45) - and (g) the space the listing reserves for a statement is exactly the
   number of bytes it emits, for every operand class, label and PC-relative operands included (proofs/PSize.v:
   an invariant established by translate() predicts how wide the operand field will be after the size loop and
   fix_addresses; the table's sizes, data flags and post-byte tables are checked by reflection on the regenerated
   tables). *)
Theorem C02_reserved_size_is_emitted_bytes :
  forall fm lines r, assemble fm lines = Ok r ->
    Forall (fun s => r_size s = N.of_nat (length (r_bytes s))) (r_stmts r).
Proof. exact statement_size_is_bytes. Qed.
Print Assumptions C02_reserved_size_is_emitted_bytes.

Theorem C02_image_loads_at_origin :
  forall fm lines r, assemble fm lines = Ok r ->
    forall k s, nth_error (r_stmts r) k = Some s -> r_bytes s <> [] ->
      r_addr s = origin_value r + N.of_nat (length (concat (map r_bytes (firstn k (r_stmts r))))).
Proof. intros fm lines r H. exact (image_loads_at_origin fm lines r H (statement_size_is_bytes fm lines r H)). Qed.
Print Assumptions C02_image_loads_at_origin.

(* (f) THE SYMBOL TABLE.  For EVERY accepted program: every label is in the symbol table, and its value there is the
   listing address of the statement it labels (the own address of the k-th final statement: what r_addr shows) - the
   symbol pass records the statement's INDEX, no later pass reorders, drops or relabels a statement, and the back-patch
   after layout replaces the index by that statement's address ... *)
Theorem C02_label_names_its_statement :
  forall fm parsed ss tb k s,
    translate_program fm parsed = Ok (ss, tb) -> nth_error ss k = Some s -> s_label s <> [] ->
    Tables.is_pseudo_define (s_instr s) = false ->
    lookup (s_label s) tb = Some (cp_addr (s_pkg s)).
Proof. intros fm parsed ss tb k s Ht. exact (label_names_its_statement fm parsed ss tb Ht k s). Qed.
Print Assumptions C02_label_names_its_statement.

(* ... and an EQU symbol defined by a number has exactly that number as its value *)
Theorem C02_equ_constant_names_its_number :
  forall fm lines parsed ss tb k s str n,
    parse_lines lines = Ok parsed -> translate_program fm parsed = Ok (ss, tb) ->
    nth_error ss k = Some s -> s_label s <> [] -> Tables.is_pseudo_define (s_instr s) = true ->
    s_operand s = OPseudo str (VNum n) ->
    lookup (s_label s) tb = Some (VNum n).
Proof.
  intros fm lines parsed ss tb k s str n Hp Ht. exact (equ_constant_names_its_number fm parsed ss tb Ht (parse_lines_shape _ _ Hp) k s str n).
Qed.
Print Assumptions C02_equ_constant_names_its_number.

(* a program with code before its ORG is rejected *)
Example C02_noncontiguous_rejected :
  MProgram.assemble [] [t " NOP
"; t " ORG $1000
"; t "L NOP
"] = Diag 2.
Proof. vm_compute. reflexivity. Qed.

(* non-vacuity: a program with forward/backward references, a PCR statement and data *)
Example C02_nonvacuous :
  exists r, MProgram.assemble [] [t " ORG $0E00
"; t "START LDX #TABLE
"; t " LEAY TABLE,PCR
"; t " BRA START
"; t "TABLE FCB 1,2,3
"] = Ok r /\ map r_addr (r_stmts r) = [3584; 3584; 3587; 3590; 3592]%N /\
   r_image r = [142; 14; 8; 49; 140; 2; 32; 248; 1; 2; 3]%N.
Proof. eexists. split; [vm_compute; reflexivity|]. split; reflexivity. Qed.
