(* C08 — Every disk image written is a structurally valid Disk BASIC filesystem. *)
From V Require Import Base.
From V.spec Require Import SpecDisk.
From V.model Require Import MDisk.
From V.proofs Require Import PDiskAlloc PDiskWrite PDiskFlat PDiskProps.
Local Open Scope N_scope.

(* For EVERY sequence of files stored on an initially blank image under ANY fill order whose entries
   are granule numbers (default or permuted; files of any kind, length and content, 7-bit ASCII names,
   16-bit addresses), the 161,280-byte image passes SpecDisk.fsck: every directory entry's chain stays
   in 0..67, ends in $C0+s (s <= 9) without revisiting a granule; chains are pairwise disjoint; every
   non-free table entry is on a chain; the implied length equals the stored stream length and the
   stream read in chain order decodes (ML: 00 len load . data . FF 00 00 exec); unallocated granules
   and the rest of track 17 are still $FF. *)
Theorem C08_every_written_image_is_valid :
  forall (order : list N) (fs : list dfile) (st : state),
    in_range order -> Forall valid_dfile fs ->
    MDisk.add_files order [] fs = Ok st ->
    SpecDisk.fsck (MDisk.image_of st) = true.
Proof. exact written_image_valid. Qed.
Print Assumptions C08_every_written_image_is_valid.

(* non-vacuity: two files (a 2-granule ML file whose trailer straddles the granule boundary, and an
   ASCII file) stored under the default order; the premises hold and the chains are as expected *)
Example C08_nonvacuous :
  let f1 := {| d_name := [72;73]; d_ext := [66;73;78]; d_type := 2; d_ascii := 0; d_load := 3584; d_exec := 3600;
               d_data := repeat 7 2296 |} in
  let f2 := {| d_name := [84]; d_ext := []; d_type := 1; d_ascii := 255; d_load := 0; d_exec := 0; d_data := [65;66] |} in
  exists st, MDisk.add_files default_order [] [f1; f2] = Ok st /\ map snd st = [[32; 33]; [34]] /\
             in_range default_order /\ Forall valid_dfile [f1; f2].
Proof.
  eexists. split; [vm_compute; reflexivity|]. split; [reflexivity|]. split.
  - apply default_order_ok.
  - repeat constructor.
Qed.
