(* C16 — file_util conversions carry every selected file across unchanged.
   ONLY property theorems closed by [exact], Print Assumptions, a non-vacuity Example.
   convert k req append src old = the bytes `file_util SRC --to_cas/--to_dsk TARGET [--files ...]`
   writes (PVirtualFile.file_util_converts ties the CLI flow MVirtualFile.file_util to it).
   Selection: sel_tape / sel_disk = the source listing filtered, IN SOURCE ORDER, by
   MVirtualFile.selected: no --files = everything; otherwise the stored name, stripped, NULs removed,
   upper-cased, must equal one of the requested names upper-cased (= case-insensitive match).
   Comparison rule PVirtualFile.feq, explicit: names are compared in the 8-character directory form
   without padding (first 8 characters, upper-cased, blanks removed); type, data type and data must be
   identical; load / entry addresses are compared for machine-language files (type 2) only — the disk
   format stores none for BASIC / ASCII files; the extension is not compared (a tape stores none). *)
From V Require Import Base.
From V.spec Require Import SpecTape SpecDisk.
From V.model Require Import MCassette MDisk MVirtualFile.
From V.proofs Require Import PCassetteR PDiskAlloc PDiskWrite PVirtualFile.
Local Open Scope N_scope.

(* cassette -> disk: whenever the conversion writes (the selected files fit on a disk), the image
   passes the Disk BASIC consistency check and the spec reader lists exactly the selected files of the
   source, in source order, each feq to its source file.
   PARTIAL: the source tape is read by the tool's tape reader, hence no empty-data file
   (tape_empty_file) and a tape below 161,280 bytes (tape_sniffed_as_disk); 7-bit ASCII names. *)
Theorem C16_cassette_to_disk_partial :
  forall (req : option (list (list byte))) (cs : list cfile) (img : list byte),
    Forall valid_cfile cs -> Forall (fun c => c_data c <> []) cs -> tape_size_ok cs ->
    convert KDsk req false (MCassette.write cs) None = Ok (Some img) ->
    SpecDisk.fsck img = true /\
    SpecDisk.files img = Some (map to_dfile (map normd (sel_tape req cs))) /\
    sniff img = Ok (map normd (sel_tape req cs), KDsk) /\
    Forall2 feq (map normd (sel_tape req cs)) (sel_tape req cs).
Proof. exact convert_cas_dsk. Qed.
Print Assumptions C16_cassette_to_disk_partial.

(* disk -> cassette: always succeeds; the tape written parses, under the checksum-verifying spec
   parser, to exactly the selected files of the source disk in source order, each feq to its source.
   (any disk image the writer can produce, under any fill order; any file lengths, also 0) *)
Theorem C16_disk_to_cassette :
  forall (req : option (list (list byte))) (order : list N) (ds : list dfile) (st : state),
    in_range order -> Forall valid_dfile ds -> MDisk.add_files order [] ds = Ok st ->
    let sel := sel_disk req ds in
    let img := MCassette.write (map to_cfile sel) in
    convert KCas req false (image_of st) None = Ok (Some img) /\
    SpecTape.parse img = Some (map (fun f => (to_cfile (normc f), 0)) sel) /\
    Forall2 feq (map normc sel) sel.
Proof. exact convert_dsk_cas. Qed.
Print Assumptions C16_disk_to_cassette.

(* chain cassette -> disk -> cassette: converting back yields the selected file set *)
Theorem C16_chain_cas_dsk_cas_partial :
  forall (req : option (list (list byte))) (cs : list cfile) (dimg : list byte),
    Forall valid_cfile cs -> Forall (fun c => c_data c <> []) cs -> tape_size_ok cs ->
    convert KDsk req false (MCassette.write cs) None = Ok (Some dimg) ->
    let sel := sel_tape req cs in
    let back := map normd sel in
    let cimg := MCassette.write (map to_cfile back) in
    convert KCas None false dimg None = Ok (Some cimg) /\
    SpecTape.parse cimg = Some (map (fun f => (to_cfile (normc f), 0)) back) /\
    Forall2 feq (map normc back) sel.
Proof. exact chain_cas_dsk_cas. Qed.
Print Assumptions C16_chain_cas_dsk_cas_partial.

(* chain disk -> cassette -> disk.  PARTIAL: the intermediate tape is read by the tool's tape reader:
   non-empty data, tape below 161,280 bytes. *)
Theorem C16_chain_dsk_cas_dsk_partial :
  forall (req : option (list (list byte))) (order : list N) (ds : list dfile) (st : state) (dimg : list byte),
    in_range order -> Forall valid_dfile ds -> Forall (fun d => d_data d <> []) ds ->
    MDisk.add_files order [] ds = Ok st ->
    let sel := sel_disk req ds in
    tape_fits sel ->
    convert KDsk None false (MCassette.write (map to_cfile sel)) None = Ok (Some dimg) ->
    SpecDisk.fsck dimg = true /\
    SpecDisk.files dimg = Some (map to_dfile (map normd (map normc sel))) /\
    Forall2 feq (map normd (map normc sel)) sel.
Proof. exact chain_dsk_cas_dsk. Qed.
Print Assumptions C16_chain_dsk_cas_dsk_partial.

(* --to_bin refuses a source holding more than one file: exit status 1, a message, nothing written *)
Theorem C16_to_bin_refuses_many :
  forall src append req p fs f g r,
    v_files src = f :: g :: r ->
    exists ev, bin_step src append req p fs = (fs, ev, Some 1) /\ ev <> [].
Proof. exact bin_step_refuses_many. Qed.
Print Assumptions C16_to_bin_refuses_many.

(* --to_bin on a single file and a new target writes that file's data byte for byte *)
Theorem C16_to_bin_single :
  forall src append p fs f,
    v_files src = [f] -> fs p = None ->
    bin_step src append None p fs = (upd fs p (f_data f), [EFile 1 (clean_name (f_name f)); ESaved KBin], None).
Proof. exact bin_step_single. Qed.
Print Assumptions C16_to_bin_single.

(* the CLI flow with one conversion switch writes exactly what [convert] computes, exit status 0;
   in every other outcome the file system is untouched and the exit status is 1 *)
Theorem C16_file_util_is_convert :
  forall k host p req append fs src,
    k <> KBin -> fs host = Some src ->
    let '(fs', ev, x) := file_util fs (conv_args k host p req append) in
    match convert k req append src (fs p) with
    | Ok (Some img) => fs' = upd fs p img /\ x = 0
    | Ok None => False
    | _ => fs' = fs /\ x = 1
    end.
Proof. exact file_util_converts. Qed.
Print Assumptions C16_file_util_is_convert.

(* non-vacuity: a tape holding "hello" (lower case, as assembler.py writes NAM hello), "B" and "c d";
   --files HeLlO "C D": the mixed-case request selects the first and the third; the conversion to a
   disk runs (the premises of C16_cassette_to_disk_partial hold) and the names listed from the disk
   are HELLO and CD (the disk reader removes blanks); the BASIC file's addresses read back as 0 *)
Example C16_nonvacuous :
  let c1 := {| c_name := [104;101;108;108;111]; c_type := 2; c_dtype := 0; c_load := 3584; c_exec := 3584; c_data := [1;2;3] |} in
  let c2 := {| c_name := [66]; c_type := 0; c_dtype := 255; c_load := 7; c_exec := 8; c_data := [65] |} in
  let c3 := {| c_name := [99;32;100]; c_type := 0; c_dtype := 0; c_load := 7; c_exec := 8; c_data := [9;9] |} in
  let cs := [c1; c2; c3] in
  let req := Some [[72;101;76;108;79]; [67;32;68]] in
  Forall valid_cfile cs /\ Forall (fun c => c_data c <> []) cs /\ tape_size_ok cs /\
  (exists st, convert KDsk req false (MCassette.write cs) None = Ok (Some (image_of st))) /\
  map f_name (map normd (sel_tape req cs)) = [[72;69;76;76;79]; [67;68]] /\
  map f_load (map normd (sel_tape req cs)) = [3584; 0].
Proof.
  cbv zeta. split; [|split; [|split; [|split; [|split]]]].
  - repeat constructor.
  - repeat constructor; discriminate.
  - vm_compute. reflexivity.
  - eexists. apply convert_cas_dsk_runs.
    + repeat constructor.
    + repeat constructor; discriminate.
    + vm_compute. reflexivity.
    + vm_compute. reflexivity.
  - vm_compute. reflexivity.
  - vm_compute. reflexivity.
Qed.
