(* C05 — Data directives emit exactly the bytes they specify. *)
From V Require Import Base.
From V.model Require Import MText MValues MOperands MProgram.
From V.proofs Require Import PRender PC05 PC05list PC05line PC18 PC01text.
From V.gen Require Tables.
From Coq Require String.
Import String.StringSyntax.
Local Open Scope N_scope.

(* (a) FCC, text level.  For EVERY delimiter d that is not white space, EVERY string str of one-byte characters not containing d
   (any characters: runs of spaces, ';', punctuation outside the operand character class, other quote
   characters) and EVERY trailing text (comment, blanks, nothing), the source line
        " FCC " d str d tail
   parses to a statement whose operand is exactly the string value str (false upstream: the string was
   re-assembled from two regex groups, repair F16) ... *)
Theorem C05_fcc_parses_to_its_characters :
  forall d str tail,
    is_space d = false -> ~ In d str -> Forall (fun c => c < 256) str -> mem_c 10 (removelast (fcc_line d str tail)) = false ->
    exists st, parse_line (fcc_line d str tail) = Ok (Some st) /\ s_operand st = OPseudo (d :: str ++ [d]) (VStr str) /\
               find_instr FCC_t Tables.instructions = Some (s_instr st) /\ s_label st = [].
Proof. exact fcc_parses_to_its_characters. Qed.
Print Assumptions C05_fcc_parses_to_its_characters.

(* ... and that statement emits exactly those characters, one byte each (every character below $100 - control characters too since repair F50 - which
   includes all printable ASCII), and reserves exactly that many bytes *)
Theorem C05_fcc_emits_its_characters :
  forall i str s,
    text_eqb (mnem i) FCC_t = true -> text_eqb (mnem i) FCB_t = false -> text_eqb (mnem i) FDB_t = false ->
    text_eqb (mnem i) RMB_t = false -> text_eqb (mnem i) ORG_t = false ->
    Forall (fun c => c < 256) str ->
    exists p, translate_operand (OPseudo s (VStr str)) i = Ok p /\
              emit_value (cp_op p) = Ok [] /\ emit_value (cp_post p) = Ok [] /\ emit_value (cp_add p) = Ok str /\
              cp_size p = N.of_nat (length str).
Proof. exact fcc_emits_its_characters. Qed.
Print Assumptions C05_fcc_emits_its_characters.

(* (a') the two halves joined, from the SOURCE LINE to the bytes with no hypothesis about the table row: the row the line
   scanner finds for FCC in the REGENERATED table is the FCC row (re-checked by computation on every build), so the
   statement the FCC line parses to is left as parsed by symbol resolution whatever the table holds, emits exactly the characters of the string and reserves exactly that many bytes *)
Theorem C05_fcc_line_emits_its_characters :
  forall d str tail,
    is_space d = false -> ~ In d str -> Forall (fun c => c < 256) str -> mem_c 10 (removelast (fcc_line d str tail)) = false ->
    exists st p, parse_line (fcc_line d str tail) = Ok (Some st) /\ s_label st = [] /\
      (forall tb, resolve_operand (s_operand st) (s_instr st) tb = Ok (s_operand st)) /\
      translate_operand (s_operand st) (s_instr st) = Ok p /\
      emit_value (cp_op p) = Ok [] /\ emit_value (cp_post p) = Ok [] /\ emit_value (cp_add p) = Ok str /\
      cp_size p = N.of_nat (length str).
Proof. exact fcc_line_emits_its_characters. Qed.
Print Assumptions C05_fcc_line_emits_its_characters.

(* (b) RMB n reserves exactly n zero bytes *)
Theorem C05_rmb_emits_zeros :
  forall i s v,
    text_eqb (mnem i) RMB_t = true -> text_eqb (mnem i) FCB_t = false -> text_eqb (mnem i) FDB_t = false ->
    exists p, translate_operand (OPseudo s v) i = Ok p /\ cp_size p = v_int v /\
              emit_value (cp_op p) = Ok [] /\ emit_value (cp_post p) = Ok [] /\
              emit_value (cp_add p) = Ok (repeat 0 (N.to_nat (v_int v))).
Proof. exact rmb_emits_zeros. Qed.
Print Assumptions C05_rmb_emits_zeros.

(* (b-line) RMB n from the SOURCE LINE: a statement line in any layout whose operand is a decimal or $hex literal in any
   spelling (every n the assembler reads: 0..65535, PC01acc.lit_value_16bit) is accepted, survives symbol resolution unchanged whatever the table holds, reserves exactly n
   bytes and emits n zeros *)
Theorem C05_rmb_literal_line_reserves_zeros :
  forall f l,
    well_formed_fields f -> upper_t (lf_mn f) = RMB_t -> lf_ops f = lit_text l -> lit_ok l ->
    exists st p, parse_line (line_of f) = Ok (Some st) /\ s_label st = lf_label f /\
      (forall tb, resolve_operand (s_operand st) (s_instr st) tb = Ok (s_operand st)) /\
      translate_operand (s_operand st) (s_instr st) = Ok p /\
      cp_size p = lit_value l /\ emit_value (cp_op p) = Ok [] /\ emit_value (cp_post p) = Ok [] /\
      emit_value (cp_add p) = Ok (repeat 0 (N.to_nat (lit_value l))).
Proof. exact rmb_literal_line_reserves_zeros. Qed.
Print Assumptions C05_rmb_literal_line_reserves_zeros.

(* (c) a single FCB / FDB value: one byte / two bytes high byte first, two's complement at the directive's
   width; a value outside the width is rejected (false upstream: FCB -1 -> 01, FCB 256 -> 10; repair F29).
   Value lists follow in (c'). *)
Theorem C05_fcb_single_value :
  forall i s v p,
    text_eqb (mnem i) FCB_t = true -> v_is_numeric v = true ->
    translate_operand (OPseudo s v) i = Ok p ->
    (-128 <= value_number v <= 255)%Z /\ cp_size p = 1 /\ emit_value (cp_op p) = Ok [] /\ emit_value (cp_post p) = Ok [] /\
    emit_value (cp_add p) = Ok [Z.to_N (value_number v mod 256)].
Proof. exact fcb_single_value. Qed.
Print Assumptions C05_fcb_single_value.

Theorem C05_fdb_single_value :
  forall i s v p,
    text_eqb (mnem i) FCB_t = false -> text_eqb (mnem i) FDB_t = true -> v_is_numeric v = true ->
    translate_operand (OPseudo s v) i = Ok p ->
    (-32768 <= value_number v <= 65535)%Z /\ cp_size p = 2 /\ emit_value (cp_op p) = Ok [] /\ emit_value (cp_post p) = Ok [] /\
    emit_value (cp_add p) = Ok [Z.to_N ((value_number v mod 65536) / 256); Z.to_N (value_number v mod 256)].
Proof. exact fdb_single_value. Qed.
Print Assumptions C05_fdb_single_value.

Theorem C05_fcb_out_of_range_rejected :
  forall i s v,
    text_eqb (mnem i) FCB_t = true -> v_is_numeric v = true ->
    (256 <= value_number v \/ value_number v < -128)%Z -> translate_operand (OPseudo s v) i = Diag 21.
Proof. exact fcb_out_of_range_rejected. Qed.
Print Assumptions C05_fcb_out_of_range_rejected.

(* (c-line) a single FCB / FDB literal from the SOURCE LINE: a statement line in any layout whose operand field is a
   decimal or $hex literal in ANY spelling (leading zeros, either letter case of hex digits - lit_ok) that fits the
   directive's width is ACCEPTED, is left as parsed by symbol resolution whatever the table holds, and emits exactly the positional value of the digits, one byte / two bytes high
   byte first (every lit_ok literal is a 16-bit quantity: PC01acc.lit_value_16bit, so FDB needs no range hypothesis) *)
Theorem C05_fcb_literal_line_emits_its_value :
  forall f l,
    well_formed_fields f -> upper_t (lf_mn f) = FCB_t -> lf_ops f = lit_text l -> lit_ok l -> lit_value l <= 255 ->
    exists st p, parse_line (line_of f) = Ok (Some st) /\ s_label st = lf_label f /\
      (forall tb, resolve_operand (s_operand st) (s_instr st) tb = Ok (s_operand st)) /\
      translate_operand (s_operand st) (s_instr st) = Ok p /\
      cp_size p = 1 /\ emit_value (cp_op p) = Ok [] /\ emit_value (cp_post p) = Ok [] /\
      emit_value (cp_add p) = Ok [lit_value l].
Proof. exact fcb_literal_line_emits_its_value. Qed.
Print Assumptions C05_fcb_literal_line_emits_its_value.

(* ... and one that does not fit the byte is parsed, then REJECTED at translation with the OperandTypeError diagnostic
   (FCB 256, FCB $0100, FCB 65535 - never truncated to a byte) *)
Theorem C05_fcb_literal_line_out_of_range_rejected :
  forall f l,
    well_formed_fields f -> upper_t (lf_mn f) = FCB_t -> lf_ops f = lit_text l -> lit_ok l -> 256 <= lit_value l ->
    exists st, parse_line (line_of f) = Ok (Some st) /\
      (forall tb, resolve_operand (s_operand st) (s_instr st) tb = Ok (s_operand st)) /\
      translate_operand (s_operand st) (s_instr st) = Diag 21.
Proof. exact fcb_literal_line_out_of_range_rejected. Qed.
Print Assumptions C05_fcb_literal_line_out_of_range_rejected.

Theorem C05_fdb_literal_line_emits_its_value :
  forall f l,
    well_formed_fields f -> upper_t (lf_mn f) = FDB_t -> lf_ops f = lit_text l -> lit_ok l ->
    exists st p, parse_line (line_of f) = Ok (Some st) /\ s_label st = lf_label f /\
      (forall tb, resolve_operand (s_operand st) (s_instr st) tb = Ok (s_operand st)) /\
      translate_operand (s_operand st) (s_instr st) = Ok p /\
      cp_size p = 2 /\ emit_value (cp_op p) = Ok [] /\ emit_value (cp_post p) = Ok [] /\
      emit_value (cp_add p) = Ok [lit_value l / 256; lit_value l mod 256].
Proof. exact fdb_literal_line_emits_its_value. Qed.
Print Assumptions C05_fdb_literal_line_emits_its_value.

(* (c') value LISTS of any length >= 2 (MultiByteValue / MultiWordValue).  elem_ok p n: the piece p is not empty, holds no
   comma and is a literal the assembler reads as the number n (decimal, -decimal, $hex, %binary, 'c).  The operand text
   p1,p2,...,pk (join 44 parts) of the FCB / FDB row of the regenerated table is accepted and emits, in order, one
   byte / two bytes high byte first per listed value - its two's complement at the directive's width - and
   reserves exactly that many bytes; a list with a value outside the width is rejected (ValueTypeError, a
   ParseError at the statement level).  False upstream for a list holding -0 (rejected; repair F53). *)
Theorem C05_fcb_list_emits_one_byte_per_value :
  forall i parts ns,
    find_instr FCB_t Tables.instructions = Some i -> (2 <= length parts)%nat -> Forall2 elem_ok parts ns ->
    Forall (fun n => (-128 <= num_number n <= 255)%Z) ns ->
    exists v p, create_operand (join 44 parts) i = Ok (OPseudo (join 44 parts) v) /\
      translate_operand (OPseudo (join 44 parts) v) i = Ok p /\
      cp_size p = N.of_nat (length ns) /\ emit_value (cp_op p) = Ok [] /\ emit_value (cp_post p) = Ok [] /\
      emit_value (cp_add p) = Ok (map (fun n => Z.to_N (num_number n mod 256)) ns).
Proof. exact fcb_list_emits_its_values. Qed.
Print Assumptions C05_fcb_list_emits_one_byte_per_value.

Theorem C05_fdb_list_emits_two_bytes_per_value :
  forall i parts ns,
    find_instr FDB_t Tables.instructions = Some i -> (2 <= length parts)%nat -> Forall2 elem_ok parts ns ->
    Forall (fun n => (-32768 <= num_number n <= 65535)%Z) ns ->
    exists v p, create_operand (join 44 parts) i = Ok (OPseudo (join 44 parts) v) /\
      translate_operand (OPseudo (join 44 parts) v) i = Ok p /\
      cp_size p = N.of_nat (2 * length ns) /\ emit_value (cp_op p) = Ok [] /\ emit_value (cp_post p) = Ok [] /\
      emit_value (cp_add p) =
        Ok (flat_map (fun n => [Z.to_N ((num_number n mod 65536) / 256); Z.to_N (num_number n mod 256)]) ns).
Proof. exact fdb_list_emits_its_values. Qed.
Print Assumptions C05_fdb_list_emits_two_bytes_per_value.

Theorem C05_list_value_out_of_range_rejected :
  forall parts ns, (2 <= length parts)%nat -> Forall2 elem_ok parts ns ->
    (forall i, find_instr FCB_t Tables.instructions = Some i ->
       Exists (fun n => (num_number n < -128 \/ 255 < num_number n)%Z) ns -> create_operand (join 44 parts) i = Diag 20) /\
    (forall i, find_instr FDB_t Tables.instructions = Some i ->
       Exists (fun n => (num_number n < -32768 \/ 65535 < num_number n)%Z) ns -> create_operand (join 44 parts) i = Diag 20).
Proof.
  intros parts ns Hl He. split; intros i Hi Hb.
  - exact (fcb_list_out_of_range_rejected i parts ns Hi Hl He Hb).
  - exact (fdb_list_out_of_range_rejected i parts ns Hi Hl He Hb).
Qed.
Print Assumptions C05_list_value_out_of_range_rejected.

(* (c'') value lists from the SOURCE LINE: a statement line in any layout (label or none, any white space, any letter case
   of the mnemonic, any trailing text or comment - well_formed_fields) whose mnemonic is FCB / FDB and whose operand
   field is p1,...,pk parses to a statement (with the line's label) that emits one byte / two bytes high byte first
   per listed value, in order, and reserves exactly that many bytes *)
Theorem C05_fcb_list_line_emits_its_values :
  forall f parts ns,
    well_formed_fields f -> upper_t (lf_mn f) = FCB_t -> lf_ops f = join 44 parts ->
    (2 <= length parts)%nat -> Forall2 elem_ok parts ns -> Forall (fun n => (-128 <= num_number n <= 255)%Z) ns ->
    exists st p, parse_line (line_of f) = Ok (Some st) /\ s_label st = lf_label f /\
      translate_operand (s_operand st) (s_instr st) = Ok p /\
      cp_size p = N.of_nat (length ns) /\ emit_value (cp_op p) = Ok [] /\ emit_value (cp_post p) = Ok [] /\
      emit_value (cp_add p) = Ok (map (fun n => Z.to_N (num_number n mod 256)) ns).
Proof. exact fcb_list_line_emits_its_values. Qed.
Print Assumptions C05_fcb_list_line_emits_its_values.

Theorem C05_fdb_list_line_emits_its_values :
  forall f parts ns,
    well_formed_fields f -> upper_t (lf_mn f) = FDB_t -> lf_ops f = join 44 parts ->
    (2 <= length parts)%nat -> Forall2 elem_ok parts ns -> Forall (fun n => (-32768 <= num_number n <= 65535)%Z) ns ->
    exists st p, parse_line (line_of f) = Ok (Some st) /\ s_label st = lf_label f /\
      translate_operand (s_operand st) (s_instr st) = Ok p /\
      cp_size p = N.of_nat (2 * length ns) /\ emit_value (cp_op p) = Ok [] /\ emit_value (cp_post p) = Ok [] /\
      emit_value (cp_add p) =
        Ok (flat_map (fun n => [Z.to_N ((num_number n mod 65536) / 256); Z.to_N (num_number n mod 256)]) ns).
Proof. exact fdb_list_line_emits_its_values. Qed.
Print Assumptions C05_fdb_list_line_emits_its_values.

(* (d) EQU, ORG, SETDP, NAM, END, INCLUDE (every pseudo operation other than FCB/FDB/RMB/FCC) emit nothing *)
Theorem C05_other_directives_emit_nothing :
  forall i s v p,
    text_eqb (mnem i) FCB_t = false -> text_eqb (mnem i) FDB_t = false -> text_eqb (mnem i) RMB_t = false ->
    text_eqb (mnem i) FCC_t = false ->
    translate_operand (OPseudo s v) i = Ok p ->
    cp_size p = 0 /\ emit_value (cp_op p) = Ok [] /\ emit_value (cp_post p) = Ok [] /\ emit_value (cp_add p) = Ok [].
Proof. exact other_pseudo_emits_nothing. Qed.
Print Assumptions C05_other_directives_emit_nothing.

Definition t (s : String.string) : text := text_of_string s.
Local Open Scope string_scope.

(* non-vacuity, through the whole assembler: repeated spaces and ';' inside the string, bare END, negative
   values, an out-of-range value rejected; a symbol as the element emits its value (repair F39) *)
Example C05_nonvacuous :
  (exists r, assemble [] [t " FCC /A;  B/ trailing
"; t " FCB -1
"; t " FDB -2,$1234
"; t " RMB 3
"; t " END
"] = Ok r /\ r_image r = [65; 59; 32; 32; 66; 255; 255; 254; 18; 52; 0; 0; 0]%N) /\
  assemble [] [t " FCB 256
"] = Diag 2 /\
  (exists r, assemble [] [t "SYM EQU $34
"; t " FCB SYM
"] = Ok r /\ r_image r = [52]%N).
Proof. split; [eexists; split; vm_compute; reflexivity|]. split; [vm_compute; reflexivity | eexists; split; vm_compute; reflexivity]. Qed.

(* the hypotheses of (c') are met by a list in every spelling (the rows exist in the regenerated table) *)
Example C05_list_nonvacuous :
  exists i ns, find_instr FCB_t Tables.instructions = Some i /\
    Forall2 elem_ok [t "1"; t "-1"; t "$7F"; t "%10000000"; t "'A"; t "-0"; t "-128"; t "255"] ns /\
    map num_number ns = [1; -1; 127; 128; 65; 0; -128; 255]%Z.
Proof.
  destruct (find_instr FCB_t Tables.instructions) as [i|] eqn:E; [|vm_compute in E; discriminate].
  exists i. eexists. split; [reflexivity|]. split.
  - repeat (apply Forall2_cons; [split; [discriminate|]; split; [vm_compute; intuition discriminate | vm_compute; reflexivity]|]).
    apply Forall2_nil.
  - vm_compute. reflexivity.
Qed.

(* the hypotheses of (c'') are met by a labelled, lower-case, commented line *)
Example C05_list_line_nonvacuous :
  let f := {| lf_label := t "TAB"; lf_sp1 := t "  "; lf_mn := t "fcb"; lf_sp2 := t " "; lf_ops := t "1,-1,$7F";
              lf_rest := t " ; table
" |} in
  well_formed_fields f /\ upper_t (lf_mn f) = FCB_t /\ lf_ops f = join 44 [t "1"; t "-1"; t "$7F"].
Proof.
  cbv zeta. split; [|split; vm_compute; reflexivity].
  unfold well_formed_fields. repeat split; try (vm_compute; reflexivity); try discriminate.
  right. eexists. eexists. split; [vm_compute; reflexivity|]. split; [vm_compute; reflexivity | discriminate].
Qed.

(* the hypotheses of (c-line) are met: a $hex literal with a leading zero and lower-case digits *)
Example C05_literal_line_nonvacuous :
  let f := {| lf_label := []; lf_sp1 := t " "; lf_mn := t "FdB"; lf_sp2 := t "   "; lf_ops := t "$0aBc"; lf_rest := t "
" |} in
  let l := Hex (t "0aBc") in
  well_formed_fields f /\ upper_t (lf_mn f) = FDB_t /\ lf_ops f = lit_text l /\ lit_ok l /\ lit_value l = 2748.
Proof.
  cbv zeta. split; [|split; [|split; [|split]]]; try (vm_compute; reflexivity).
  - unfold well_formed_fields. repeat split; try (vm_compute; reflexivity); try discriminate.
    right. eexists. eexists. split; [vm_compute; reflexivity|]. split; [vm_compute; reflexivity | discriminate].
  - cbn [lit_ok]. split; [discriminate|]. split; [vm_compute; reflexivity | cbn; lia].
Qed.
