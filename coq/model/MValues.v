(* MValues.v — executable model of cocoasm/values.py: the Value classes, Value.create_from_str,
   NumericValue spelling/width rules, hex()/hex_len() rendering, symbol and expression resolution.
   Hand-written; tied to the code by the correspondence check (harness/asm.py). *)
From V Require Import Base.
From V.model Require Import MText.
Local Open Scope N_scope.

Inductive mode := MNone | MDirect | MExtended | MImmediate | MExplDirect | MExplExtended.
Definition mode_eqb (a b : mode) : bool :=
  match a, b with
  | MNone, MNone | MDirect, MDirect | MExtended, MExtended | MImmediate, MImmediate
  | MExplDirect, MExplDirect | MExplExtended, MExplExtended => true
  | _, _ => false
  end.
Definition is_ext_mode (m : mode) : bool := match m with MExtended | MExplExtended => true | _ => false end.

(* NumericValue: magnitude, sign flag, size_hint (hex digits), addressing mode *)
Record num := { n_int : N; n_neg : bool; n_hint : option N; n_mode : mode }.

Inductive value :=
| VNone                                                       (* NoneValue *)
| VNum (n : num)                                              (* NumericValue *)
| VSym (name : text) (m : mode)                               (* SymbolValue, unresolved *)
| VAddr (idx : N)                                             (* AddressValue(statement index) *)
| VExpr (l : value) (op : N) (r : value) (m : mode) (addr : bool)   (* ExpressionValue; addr = type ADDRESS_EXPRESSION *)
| VLR (l r : text) (m : mode)                                 (* LeftRightValue *)
| VStr (s : text)                                             (* StringValue (inner characters) *)
| VMulti (hexs : list N)                                      (* MultiByteValue / MultiWordValue: the joined hex digits *)
| VPyNone.                                                    (* Python None returned by SymbolValue.resolve *)

(* Python exceptions are rendered through Base.res:
   Diag 20 = ValueTypeError, Diag 21 = OperandTypeError (both become ParseError/TranslationError at
   the statement level), Internal k = an exception class the tool does not translate. *)
Definition VTE {A} : res A := Diag 20.
Definition OTE {A} : res A := Diag 21.
Definition E_ATTR : N := 1.   (* AttributeError *)
Definition E_INDEX : N := 2.  (* IndexError *)
Definition E_VALUE : N := 3.  (* ValueError / ValueTypeError escaping *)
Definition E_ZERO : N := 4.   (* ZeroDivisionError *)
Definition E_TYPE : N := 5.   (* TypeError *)
Definition E_FILE : N := 6.   (* FileNotFoundError / OSError *)
Definition E_RECUR : N := 7.  (* RecursionError *)

(* ---------- NumericValue constructors ---------- *)

(* Value.__init__: size_hint := param, forced to 4 for EXTENDED / EXPLICIT_EXTENDED *)
Definition init_hint (p : option N) (m : mode) : option N := if is_ext_mode m then Some 4 else p.

(* post_init_direct_check on (int, hint, mode) *)
Definition post_init (i : N) (h : option N) (m : mode) : option N * mode :=
  let '(h1, m1) :=
    match h with
    | None => if mode_eqb m MExplExtended then (h, m)
              else if (i <? 256) && negb (mode_eqb m MImmediate) then (Some 2, MDirect) else (h, m)
    | Some _ => (h, m)
    end in
  (h1, if mode_eqb m1 MNone then MExtended else m1).

(* NumericValue(int_value, size_hint=p, mode=m) for a Python int given as sign + magnitude *)
Definition num_of_int (neg : bool) (mag : N) (p : option N) (m : mode) : res num :=
  if negb neg && (65535 <? mag) then VTE
  else let '(h, m') := post_init mag (init_hint p m) m in
       Ok {| n_int := mag; n_neg := neg && negb (mag =? 0); n_hint := h; n_mode := m' |}.

Definition num_of_Z (z : Z) (p : option N) (m : mode) : res num :=
  num_of_int (z <? 0)%Z (Z.to_N (Z.abs z)) p m.

Definition all_c (p : N -> bool) (t : text) : bool := forallb p t.

(* NumericValue(str, size_hint=p, mode=m): CHAR, BINARY, HEX, INT, NEG_INT in this order *)
Definition num_of_text (t : text) (p : option N) (m : mode) : res num :=
  let h0 := init_hint p m in
  let isnone (o : option N) := match o with None => true | Some _ => false end in
  match t with
  | [] => VTE
  | c0 :: ds =>
    let nonempty := negb (Nat.eqb (length ds) 0) in
    if (c0 =? 39) && Nat.eqb (length ds) 1 && is_charlit (hd 0 ds) then            (* 'c *)
      Ok {| n_int := hd 0 ds; n_neg := false; n_hint := match h0 with None => Some 2 | _ => h0 end; n_mode := m |}
    else if (c0 =? 37) && nonempty && all_c (fun c => (c =? 48) || (c =? 49)) ds then   (* %bits *)
      let len := length ds in
      if negb (Nat.eqb len 8) && negb (Nat.eqb len 16) then VTE
      else
        let v := parse_base 2 ds 0 in
        if Nat.eqb len 8 && isnone p && negb (mode_eqb m MExplExtended) then
          Ok {| n_int := v; n_neg := false; n_hint := Some 2;
                n_mode := if mode_eqb m MImmediate then m else MDirect |}
        else Ok {| n_int := v; n_neg := false; n_hint := h0; n_mode := m |}
    else if (c0 =? 36) && nonempty && all_c is_hexdigit ds then                     (* $hex *)
      let len := length ds in
      if Nat.ltb 4 len then VTE
      else
        let v := parse_base 16 ds 0 in
        let '(h1, m1) := if Nat.eqb len 2 && isnone p && negb (mode_eqb m MExplExtended)
                         then (Some 2, if mode_eqb m MImmediate then m else MDirect) else (h0, m) in
        Ok {| n_int := v; n_neg := false; n_hint := h1; n_mode := if mode_eqb m1 MNone then MExtended else m1 |}
    else if all_c is_digit t then                                                  (* digits *)
      let v := parse_base 10 t 0 in
      if 65535 <? v then VTE
      else let '(h, m') := post_init v h0 m in Ok {| n_int := v; n_neg := false; n_hint := h; n_mode := m' |}
    else if (c0 =? 45) && nonempty && all_c is_digit ds then                        (* -digits *)
      let v := parse_base 10 ds 0 in
      if 32768 <? v then VTE
      else Ok {| n_int := v; n_neg := negb (v =? 0); n_hint := h0; n_mode := m |}     (* -0 is zero: repair F53 *)
    else VTE
  end.

(* ---------- rendering ---------- *)

Definition get_negative (n : num) : N :=
  if negb (n_neg n) then n_int n else if n_int n <=? 128 then 256 - n_int n else 65536 - n_int n.

(* hex_len *)
Definition num_hex_len (n : num) : nat :=
  match n_hint n with
  | Some h => N.to_nat h
  | None => even_up (length (hexdigits (n_int n)))
  end.

(* NumericValue.hex(size); None = a negative magnitude above 65536 (Python would print a '-' sign): unmodelled *)
Definition num_hex (n : num) (size : nat) : option (list N) :=
  let size1 := match n_hint n with
               | Some h => if (negb (h =? 0)) && Nat.eqb size 0 then N.to_nat h else size
               | None => size end in
  let w := if Nat.eqb size1 0 then even_up (num_hex_len n) else size1 in
  if n_neg n && Nat.leb 4 w then
    (if 65536 <? n_int n then None else Some (fmt_hex w (65536 - n_int n)))
  else if n_neg n && (65536 <? n_int n) then None
  else Some (fmt_hex w (get_negative n)).

Definition is_4_bit (n : num) : bool := if n_neg n then n_int n <=? 16 else n_int n <=? 15.
Definition is_8_bit (n : num) : bool := if n_neg n then n_int n <=? 128 else n_int n <=? 127.

(* ---------- generic Value accessors ---------- *)

Definition v_int (v : value) : N :=
  match v with VNum n => n_int n | VAddr i => i | _ => 0 end.
Definition v_mode (v : value) : mode :=
  match v with
  | VNum n => n_mode n | VSym _ m => m | VExpr _ _ _ m _ => m | VLR _ _ m => m | _ => MNone
  end.
Definition v_is_numeric (v : value) : bool := match v with VNum _ => true | _ => false end.
Definition v_is_address (v : value) : bool := match v with VAddr _ => true | _ => false end.
Definition v_is_symbol (v : value) : bool := match v with VSym _ _ => true | _ => false end.
Definition v_is_none (v : value) : bool := match v with VNone => true | _ => false end.
Definition v_is_lr (v : value) : bool := match v with VLR _ _ _ => true | _ => false end.
Definition v_is_expr (v : value) : bool := match v with VExpr _ _ _ _ false => true | _ => false end.
Definition v_is_addr_expr (v : value) : bool := match v with VExpr _ _ _ _ true => true | _ => false end.
Definition v_is_multi (v : value) : bool := match v with VMulti _ => true | _ => false end.
Definition v_is_extended (v : value) : bool := mode_eqb (v_mode v) MExtended.
Definition v_is_direct (v : value) : bool := mode_eqb (v_mode v) MDirect.
Definition v_negative (v : value) : bool := match v with VNum n => n_neg n | _ => false end.
Definition v_is_8_bit (v : value) : bool := match v with VNum n => is_8_bit n | _ => false end.
Definition v_is_16_bit (v : value) : bool :=
  match v with VNum n => negb (is_4_bit n) && negb (is_8_bit n) | VAddr _ => true | _ => false end.

(* hex_len() *)
Definition v_hex_len (v : value) : nat :=
  match v with
  | VNum n => num_hex_len n
  | VAddr i => length (hexdigits i)
  | VStr s => length (concat (map (fmt_hex 2) s))          (* two digits per character: repair F50 *)
  | VMulti h => length h
  | _ => 0
  end.

(* hex() with size = 0; None = unmodelled rendering *)
Definition v_hex (v : value) : option (list N) :=
  match v with
  | VNum n => num_hex n 0
  | VAddr i => Some (fmt_hex (even_up (length (hexdigits i))) i)
  | VStr s => Some (concat (map (fmt_hex 2) s))
  | VMulti h => Some h
  | VExpr _ _ _ _ _ => Some [0; 0]
  | _ => Some []
  end.

Definition v_byte_len (v : value) : N := N.of_nat (v_hex_len v / 2).

(* the emission loop of Program.get_binary_array for one Value:
   for index in range(0, hex_len, 2): byte = hex[index], hex[index+1]  (IndexError past the end) *)
Fixpoint emit_pairs (k : nat) (h : list N) : res (list N) :=
  match k with
  | O => Ok []
  | S k' =>
      match h with
      | a :: b :: r => do rest <- emit_pairs k' r; Ok (a * 16 + b :: rest)
      | _ => Internal E_INDEX
      end
  end.
Definition emit_value (v : value) : res (list N) :=
  match v with
  | VPyNone => Internal E_ATTR
  | _ => match v_hex v with
         | None => Unmodelled
         | Some h => emit_pairs ((v_hex_len v + 1) / 2) h
         end
  end.

(* ---------- Value.create_from_str ---------- *)

(* EXPRESSION_REGEX ^([$]*\w+)([+\-/*])([$]*\w+)$ : Some (left, op, right) *)
Definition is_opchar (c : N) : bool := (c =? 43) || (c =? 45) || (c =? 47) || (c =? 42).
Definition split_expr (t : text) : option (text * N * text) :=
  let sigil := fun c => (c =? 36) || (c =? 37) in
  let '(d1, r1) := span sigil t in
  let '(w1, r2) := span is_labelch r1 in
  match w1, r2 with
  | _ :: _, op :: r3 =>
      if is_opchar op then
        let '(d2, r4) := span sigil r3 in
        let '(w2, r5) := span is_labelch r4 in
        match w2, r5 with
        | _ :: _, [] => Some (d1 ++ w1, op, d2 ++ w2)
        | _, _ => None
        end
      else None
  | _, _ => None
  end.

(* a side of an expression: create_from_str(text, default_mode_extended=False), no instruction.
   It contains no operator (only $ and \w characters), so only Numeric and Symbol can succeed. *)
Definition atom_of_text (t : text) : res value :=
  match t with
  | [] => VTE
  | _ =>
    if mem_c 44 t then VTE else      (* cannot happen: no comma in [$\w]* *)
    match num_of_text t None MNone with
    | Ok n => Ok (VNum n)
    | _ => if all_c is_symch t then Ok (VSym t MNone) else VTE
    end
  end.

Definition expr_of_text (t : text) (m : mode) : res value :=
  match split_expr t with
  | None => VTE
  | Some (l, op, r) =>
      do lv <- atom_of_text l;
      do rv <- atom_of_text r;
      let m' := if mode_eqb m MNone && (is_ext_mode (v_mode lv) || is_ext_mode (v_mode rv)) then MExtended else m in
      Ok (VExpr lv op rv m' false)
  end.

Definition lr_of_text (t : text) (m : mode) : res value :=
  match split_on 44 t with
  | [l; r] => Ok (VLR l r m)
  | _ => VTE
  end.

Definition ok_or {A} (r : res A) (k : res A) : res A := match r with Ok a => Ok a | _ => k end.

(* Value.create_from_str(value, instruction, default_mode_extended); is16 = instruction.is_16_bit,
   strdef = instruction.is_string_define *)
Definition value_of_text (t : text) (strdef is16 : bool) (dflt_ext : bool) : res value :=
  match t with
  | [] => VTE
  | c0 :: rest =>
      let as_string :=
        if strdef then
          match rev rest with
          | cl :: inner_rev =>      (* every character must fit in one byte (repair F51) *)
              if (cl =? c0) && forallb (fun c => c <? 256) inner_rev then Some (VStr (rev inner_rev)) else None
          | [] => Some (VStr [])          (* value[-1] == value[0] for a one-character string; [1:-1] = "" *)
          end
        else None in
      match as_string with
      | Some v => Ok v
      | None =>
          let m0 := if dflt_ext then MExtended else MNone in
          let '(m, t') := if c0 =? 60 then (MExplDirect, rest) else if c0 =? 62 then (MExplExtended, rest)
                          else if c0 =? 35 then (MImmediate, rest) else (m0, t) in
          let p := if is16 then Some 4 else None in
          ok_or (expr_of_text t' m)
         (ok_or (lr_of_text t' m)
         (ok_or (do n <- num_of_text t' p m; Ok (VNum n))
                (if all_c is_symch t' && negb (Nat.eqb (length t') 0) then Ok (VSym t' m) else VTE)))
      end
  end.

(* ---------- symbol table and resolution ---------- *)

Definition symtab := list (text * value).
Fixpoint lookup (s : text) (tb : symtab) : option value :=
  match tb with
  | [] => None
  | (k, v) :: r => if text_eqb k s then Some v else lookup s r
  end.

(* Diag 22 = ValueError "[x] not in symbol table" / "unresolved expression" (wrapped into
   TranslationError by Statement.resolve_symbols) *)
Definition get_symbol (s : text) (tb : symtab) : res value :=
  match lookup s tb with Some v => Ok v | None => Diag 22 end.

(* SymbolValue.resolve *)
Definition resolve_symbol (s : text) (tb : symtab) : res value :=
  do sv <- get_symbol s tb;
  match sv with
  | VAddr i => Ok (VAddr i)
  | VExpr _ _ _ _ true => Ok sv                 (* a symbol defined by label arithmetic: repair F46 *)
  | VNum n => do n' <- num_of_int (n_neg n) (n_int n) None MNone; Ok (VNum n')   (* sign kept: repair F38 *)
  | _ => Ok VPyNone
  end.

(* int(l / r) with Python float division, truncating toward zero: exact below 2^53 (operands are below 65536) *)
Definition expr_arith (op : N) (l r : Z) : res Z :=
  if op =? 43 then Ok (l + r)%Z
  else if op =? 45 then Ok (l - r)%Z
  else if op =? 42 then Ok (l * r)%Z
  else if (r =? 0)%Z then Diag 23 else Ok (Z.quot l r).

(* the signed number a numeric value stands for *)
Definition v_signed (v : value) : Z := if v_negative v then (- Z.of_N (v_int v))%Z else Z.of_N (v_int v).

Definition num_of_result (z : Z) (m : mode) : res num :=
  let h0 := init_hint None m in
  if (z <? 0)%Z then
    let v := Z.to_N (- z) in
    if 32768 <? v then VTE else Ok {| n_int := v; n_neg := true; n_hint := h0; n_mode := m |}
  else
    let v := Z.to_N z in
    if 65535 <? v then VTE
    else let '(h, m') := post_init v h0 m in Ok {| n_int := v; n_neg := false; n_hint := h; n_mode := m' |}.

(* ExpressionValue.resolve *)
Definition resolve_expr (l : value) (op : N) (r : value) (m : mode) (tb : symtab) : res value :=
  do l' <- match l with VSym s _ => get_symbol s tb | _ => Ok l end;
  do r' <- match r with VSym s _ => get_symbol s tb | _ => Ok r end;
  match l', r' with
  | VPyNone, _ | _, VPyNone => Diag 24        (* AttributeError inside the wrapped call *)
  | _, _ =>
    let rm := if is_ext_mode (v_mode l') || is_ext_mode (v_mode r') then MExtended else MDirect in
    if v_is_numeric r' && v_is_numeric l' then
      do z <- expr_arith op (v_signed l') (v_signed r');
      do n <- num_of_result z rm;
      Ok (VNum n)
    else if v_is_address l' || v_is_address r' then Ok (VExpr l' op r' m true)
    else Diag 22
  end.

(* Value.resolve(symbol_table) *)
Definition resolve_value (v : value) (tb : symtab) : res value :=
  match v with
  | VSym s _ => resolve_symbol s tb
  | VExpr l op r m _ => resolve_expr l op r m tb
  | _ => Ok v
  end.
