(* MCassette.v — executable model of cocoasm/virtualfiles/cassette.py (writer and reader).
   Hand-written; tied to the code by the correspondence check (harness/cassette.py). *)
From V Require Import Base.
From V.spec Require Import SpecTape.
Local Open Scope N_scope.

(* ---------- writer: CassetteFile.add_file / add_files ---------- *)

(* append_name: first 8 characters, padded with $20 *)
Fixpoint name8 (fuel : nat) (n : list byte) : list byte :=
  match fuel with
  | O => []
  | S f => match n with [] => 32 :: name8 f [] | c :: r => c :: name8 f r end
  end.

(* append_header payload (bytes 5..19 of the header) *)
Definition header_payload (f : cfile) : list byte :=
  name8 8 (c_name f) ++
  [c_type f; c_dtype f; 0; hi (c_load f); lo (c_load f); hi (c_exec f); lo (c_exec f)].

(* a framed block as the writer emits it: checksum & 0xFF *)
Definition block (ty : byte) (pl : list byte) : list byte :=
  [85; 60; ty; N.of_nat (length pl)] ++ pl ++ [(ty + N.of_nat (length pl) + sumN pl) mod 256; 85].

(* append_data_blocks: recursion on the remaining data, 255 bytes at a time; fuel = |data| *)
Fixpoint data_blocks (fuel : nat) (d : list byte) : list byte :=
  match fuel with
  | O => []
  | S f => match d with
           | [] => []
           | _ => if Nat.ltb (length d) 255 then block 1 d
                  else block 1 (firstn 255 d) ++ data_blocks f (skipn 255 d)
           end
  end.

Definition eof_block : list byte := [85; 60; 255; 0; 255; 85].
Definition blank : list byte := repeat 0 128.
Definition leader : list byte := repeat 85 128.

Definition add_file (f : cfile) : list byte :=
  blank ++ leader ++ block 0 (header_payload f) ++ blank ++ leader
  ++ data_blocks (S (length (c_data f))) (c_data f) ++ eof_block.

Definition write (fs : list cfile) : list byte := concat (map add_file fs).

(* what a listing is expected to return for a stored file: the name as the 8 stored bytes *)
Definition norm (f : cfile) : cfile :=
  {| c_name := name8 8 (c_name f); c_type := c_type f; c_dtype := c_dtype f;
     c_load := c_load f; c_exec := c_exec f; c_data := c_data f |}.

(* ---------- reader: CassetteFile.list_files / read_file / read_blocks ---------- *)
(* The Python reader keeps an integer pointer; the model keeps the remaining suffix.
   Error codes: Diag 1 = VirtualFileValidationError; Internal 1 = IndexError. *)

(* buffer[pointer] *)
Definition next_byte (bs : list byte) : res (byte * list byte) :=
  match bs with [] => Internal 1 | x :: r => Ok (x, r) end.

(* n indexed reads buffer[pointer+i]; pointer += n *)
Definition take_exact (n : nat) (bs : list byte) : res (list byte * list byte) :=
  if Nat.leb n (length bs) then Ok (firstn n bs, skipn n bs) else Internal 1.

(* read_blocks: returns (data, rest); None of the checksums is verified (as in the code). *)
Definition read_blocks_step (rec : list byte -> res (list byte * list byte)) (bs : list byte)
  : res (list byte * list byte) :=
  match seek [85; 60] bs with
  | None => Diag 1                                 (* "Data or EOF block not found" *)
  | Some s =>
      do (ty, r1) <- next_byte (skipn 2 s);
      if ty =? 255 then Ok ([], skipn 3 r1)
      else if ty =? 1 then
             do (len, r2) <- next_byte r1;
             do (pl, r3) <- take_exact (N.to_nat len) r2;
             do (d, r4) <- rec (skipn 2 r3);
             Ok (pl ++ d, r4)
           else Diag 2                              (* "Unknown block type found" *)
  end.
Fixpoint read_blocks (fuel : nat) (bs : list byte) : res (list byte * list byte) :=
  match fuel with O => OutOfFuel | S f => read_blocks_step (read_blocks f) bs end.

(* read_word: VirtualFileValidationError when fewer than two bytes remain *)
Definition read_word (bs : list byte) : res N :=
  match bs with
  | h :: l :: _ => Ok (word h l)
  | _ => Diag 3
  end.

(* read_file: None = no further file (either no header found, or the file has no data) *)
Definition read_file (bs : list byte) : res (option cfile * list byte) :=
  match seek [85; 60; 0] bs with
  | None => Ok (None, [])
  | Some s =>
      do (nm, r1) <- take_exact 8 (skipn 4 s);
      if negb (forallb (fun b => b <? 128) nm) then Unmodelled   (* utf-8 decoding of non-ASCII names *)
      else
      do (ty, r2) <- next_byte r1;
      do (dt, r3) <- next_byte r2;
      do (_, r4) <- next_byte r3;
      do ld <- read_word r4;
      do ex <- read_word (skipn 2 r4);
      do (d, r5) <- read_blocks (S (length r4)) (skipn 6 r4);
      match d with
      | [] => Ok (None, r5)
      | _ => Ok (Some {| c_name := nm; c_type := ty; c_dtype := dt;
                         c_load := ld; c_exec := ex; c_data := d |}, r5)
      end
  end.

Definition list_files_step (rec : list byte -> res (list cfile)) (bs : list byte) : res (list cfile) :=
  do (of, rest) <- read_file bs;
  match of with
  | None => Ok []
  | Some f => do l <- rec rest; Ok (f :: l)
  end.
Fixpoint list_files_fuel (fuel : nat) (bs : list byte) : res (list cfile) :=
  match fuel with O => OutOfFuel | S f => list_files_step (list_files_fuel f) bs end.
Definition list_files (bs : list byte) : res (list cfile) := list_files_fuel (S (length bs)) bs.
