(* MOperands.v — executable model of cocoasm/operands.py: Operand.create_from_str cascade,
   resolve_symbols, translate() of every operand class, producing a CodePackage.
   Consumes the regenerated instruction table (gen/Tables.v). *)
From V Require Import Base.
From V.model Require Import MText MValues.
From V.gen Require Tables.
Local Open Scope N_scope.

Notation irow := Tables.irow.
Definition mnem (i : irow) : text := text_of_string (Tables.mn i).
Definition is_branch (i : irow) : bool := Tables.is_short_branch i || Tables.is_long_branch i.

Definition t_A : text := [65].  Definition t_B : text := [66].  Definition t_D : text := [68].
Definition t_X : text := [88].  Definition t_Y : text := [89].  Definition t_U : text := [85].  Definition t_S : text := [83].
Definition t_PCR : text := [80; 67; 82].
Definition is_abd (t : text) : bool := text_eqb t t_A || text_eqb t t_B || text_eqb t t_D.

Inductive side := LStr (t : text) | LVal (v : value).

Inductive operand :=
| OPseudo (s : text) (v : value)
| OSpecial (s : text)
| ORelative (v : value)
| OInherent
| OExtIdx (s : text) (v : value) (l : side) (r : option text)   (* r = None: self.right is still NoneValue *)
| OIndexed (s : text) (l : side) (r : text)
| OImmediate (v : value)
| OUnknown (v : value)
| ODirect (v : value)
| OExtended (v : value).

Record codepkg := { cp_op : value; cp_addr : value; cp_post : value; cp_add : value;
                    cp_size : N; cp_needs : bool; cp_choices : list N; cp_max : N }.
Definition cp_empty : codepkg :=
  {| cp_op := VNone; cp_addr := VNone; cp_post := VNone; cp_add := VNone; cp_size := 0; cp_needs := false;
     cp_choices := []; cp_max := 0 |}.

Definition numv (v : N) : res value := do n <- num_of_int false v None MNone; Ok (VNum n).
Definition numv_h (v : N) (h : N) : res value := do n <- num_of_int false v (Some h) MNone; Ok (VNum n).

(* fit_value(value, hex_digits, signed): the value rendered in exactly hex_digits digits, or
   OperandTypeError when it does not fit (F26) *)
Definition fit_value (v : value) (digits : N) (signed : bool) : res value :=
  let number := if v_negative v then (- Z.of_N (v_int v))%Z else Z.of_N (v_int v) in
  let limit := Z.pow 16 (Z.of_N digits) in
  if (limit <=? number)%Z || (number <? (if signed then - (limit / 2) else 0))%Z then OTE
  else do n <- num_of_Z number (Some digits) MNone; Ok (VNum n).

(* ImmediateOperand.address_digits / Operand.address_digits *)
Definition imm_digits (i : irow) : N :=
  match Tables.imm i with
  | Some opc => 2 * (Tables.imm_sz i - (if 255 <? opc then 2 else 1))
  | None => 4
  end.

(* ---------- Operand.create_from_str ---------- *)

Definition create_value (t : text) (i : irow) (dflt_ext : bool) : res value :=
  value_of_text t (Tables.is_string_define i) (Tables.is_16_bit i) dflt_ext.

(* MultiByteValue / MultiWordValue: NumericValue(x).hex(size) for every non-empty piece *)
Fixpoint multi_hex (w : nat) (parts : list text) : res (list N) :=
  match parts with
  | [] => Ok []
  | p :: r =>
      match p with
      | [] => multi_hex w r
      | _ => do n <- num_of_text p None MNone;
             match num_hex n w with
             | None => Unmodelled
             | Some h => do rest <- multi_hex w r; Ok (h ++ rest)
             end
      end
  end.

Definition END_t : text := [69; 78; 68].

(* every rendered element must have exactly w digits (F29) *)
Fixpoint multi_fits (w : nat) (parts : list text) : bool :=
  match parts with
  | [] => true
  | p :: r =>
      match p with
      | [] => multi_fits w r
      | _ => match num_of_text p None MNone with
             | Ok n => match num_hex n w with Some h => Nat.eqb (length h) w && multi_fits w r | None => true end
             | _ => true
             end
      end
  end.

Definition multi_value (w : nat) (s : text) : res value :=
  do h <- multi_hex w (split_on 44 s);
  if multi_fits w (split_on 44 s) then Ok (VMulti h) else VTE.

Definition pseudo_operand (s : text) (i : irow) : res operand :=
  do v <- (if Tables.is_multi_byte i && mem_c 44 s then multi_value 2 s
           else if Tables.is_multi_word i && negb (Tables.is_multi_byte i) && mem_c 44 s
                then multi_value 4 s
           else if negb (Tables.is_multi_byte i) && negb (Tables.is_multi_word i) &&
                   (Tables.is_include i || (text_eqb (mnem i) END_t && Nat.eqb (length s) 0)) then Ok VNone
           else create_value s i true);
  if Tables.is_pseudo_define i && v_is_numeric v then      (* numeric only: repair F41 *)
    if starts_with [36] s && Nat.ltb 3 (length s) then
      do n <- num_of_int false (v_int v) None MExtended; Ok (OPseudo s (VNum n))
    else if Nat.eqb (v_hex_len v) 2 then
      do n <- num_of_int false (v_int v) None MDirect; Ok (OPseudo s (VNum n))
    else Ok (OPseudo s v)
  else Ok (OPseudo s v).

(* the cascade; Diag 21 (OperandTypeError) moves on to the next class, Diag 20 (ValueTypeError)
   from an unguarded constructor ends the cascade (ParseError since the F5 repair) *)
Definition vte_to_ote {A} (r : res A) : res A := match r with Diag 20 => Diag 21 | _ => r end.
Definition next_if_ote {A} (r : res A) (k : res A) : res A := match r with Diag 21 => k | _ => r end.

Definition create_operand (s : text) (i : irow) : res operand :=
  if Tables.is_pseudo i then pseudo_operand s i
  else if Tables.is_special i then Ok (OSpecial s)
  else if is_branch i && negb (match s with c :: _ => (c =? 35) || (c =? 60) || (c =? 62) | [] => false end)
       then do v <- create_value s i true; Ok (ORelative v)
  else match s with
  | [] => Ok OInherent
  | _ =>
    let extidx :=
      if (hd 0 s =? 91) && (last s 0 =? 93) then
          let inner := removelast (tl s) in
          vte_to_ote (do v <- create_value inner i true;
                      match v with
                      | VLR l r _ => Ok (OExtIdx s v (LStr l) (Some r))
                      | _ => Ok (OExtIdx s v (LVal VNone) None)
                      end)
      else OTE in
    next_if_ote extidx
   (next_if_ote (vte_to_ote (do v <- create_value s i true;
                             match v with VLR l r _ => Ok (OIndexed s (LStr l) r) | _ => OTE end))
   (next_if_ote (vte_to_ote (do v <- create_value s i true;
                             if mode_eqb (v_mode v) MImmediate then Ok (OImmediate v) else OTE))
                (vte_to_ote (do v <- create_value s i true; Ok (OUnknown v)))))
  end.

(* ---------- resolve_symbols ---------- *)
Definition FCB_t : text := [70;67;66].  Definition FDB_t : text := [70;68;66].  Definition RMB_t : text := [82;77;66].
Definition ORG_t : text := [79;82;71].  Definition FCC_t : text := [70;67;67].


(* the left side of an indexed operand: Value.create_from_str(left, instruction, False), then
   symbols and expressions are resolved *)
Definition resolve_left (l : side) (i : irow) (tb : symtab) : res side :=
  match l with
  | LVal _ => Ok l
  | LStr t =>
      if Nat.eqb (length t) 0 || is_abd t then Ok l
      else
        do v <- create_value t i false;
        do v1 <- (if v_is_symbol v then resolve_value v tb else Ok v);
        match v1 with
        | VPyNone => Diag 24
        | _ => do v2 <- (if v_is_addr_expr v1 || v_is_expr v1 then resolve_value v1 tb else Ok v1); Ok (LVal v2)
        end
  end.

Definition resolve_operand (o : operand) (i : irow) (tb : symtab) : res operand :=
  match o with
  | OSpecial _ | OInherent | ODirect _ | OExtended _ => Ok o
  | OPseudo s v =>
      (* FCB/FDB elements (repair F39), RMB and ORG (repair F40) take symbols and expressions *)
      let is_data := Tables.is_multi_byte i || Tables.is_multi_word i in
      let is_layout := text_eqb (mnem i) RMB_t || text_eqb (mnem i) ORG_t in
      do v' <- (if (is_data || is_layout) && (v_is_symbol v || v_is_expr v) then resolve_value v tb else Ok v);
      if is_layout then
        match v' with
        | VPyNone => Diag 24
        | _ => if negb (v_is_numeric v') || v_negative v' then Diag 21 else Ok (OPseudo s v')
        end
      else Ok (OPseudo s v')
  | ORelative v => do v' <- resolve_value v tb; Ok (ORelative v')
  | OImmediate v => do v' <- resolve_value v tb; Ok (OImmediate v')
  | OUnknown v =>
      do v' <- resolve_value v tb;
      match v' with
      | VPyNone => Diag 24
      | _ =>
        let fits_direct := v_is_direct v' && (v_int v' <? 256) && negb (v_negative v') in
        let fits_direct := fits_direct && negb (mode_eqb (v_mode v) MExplExtended) in
        if mode_eqb (v_mode v) MExplDirect || (v_is_numeric v' && fits_direct) then Ok (ODirect v')   (* F44 *)
        else Ok (OExtended v')
      end
  | OExtIdx s v l r =>
      if negb (v_is_none v) && negb (v_is_lr v) then do v' <- resolve_value v tb; Ok (OExtIdx s v' l r)
      else do l' <- resolve_left l i tb; Ok (OExtIdx s v l' r)
  | OIndexed s l r => do l' <- resolve_left l i tb; Ok (OIndexed s l' r)
  end.

(* ---------- translate ---------- *)

Definition opt_op (o : option N) (k : N -> res codepkg) : res codepkg :=
  match o with None => OTE | Some c => k c end.

Definition simple_pkg (opc : N) (add : value) (sz : N) : res codepkg :=
  do ov <- numv opc;
  Ok {| cp_op := ov; cp_addr := VNone; cp_post := VNone; cp_add := add; cp_size := sz; cp_needs := false;
        cp_choices := []; cp_max := sz |}.

Definition data_pkg (add : value) (sz : N) : codepkg :=
  {| cp_op := VNone; cp_addr := VNone; cp_post := VNone; cp_add := add; cp_size := sz; cp_needs := false;
     cp_choices := []; cp_max := sz |}.

Definition s_eq (a : String.string) (t : text) : bool := text_eqb (text_of_string a) t.

Fixpoint lookup_pshpul (m r : text) (tb : list (String.string * String.string * option N)) : option N :=
  match tb with
  | [] => None
  | (a, b, v) :: rest => if s_eq a m && s_eq b r then v else lookup_pshpul m r rest
  end.
Fixpoint lookup_tfrexg (m r1 r2 : text) (tb : list (String.string * String.string * String.string * option N)) : option N :=
  match tb with
  | [] => None
  | (a, b, c, v) :: rest => if s_eq a m && s_eq b r1 && s_eq c r2 then v else lookup_tfrexg m r1 r2 rest
  end.

Definition is_pshpul (m : text) : bool :=
  existsb (text_eqb m) [[80;83;72;83]; [80;83;72;85]; [80;85;76;83]; [80;85;76;85]].
Definition is_tfrexg (m : text) : bool := existsb (text_eqb m) [[84;70;82]; [69;88;71]].

Fixpoint pshpul_mask (m : text) (regs : list text) (acc : N) : res N :=
  match regs with
  | [] => Ok acc
  | r :: rest => match lookup_pshpul m r Tables.pshpul_table with
                 | None => OTE
                 | Some b => pshpul_mask m rest (N.lor acc b)
                 end
  end.

Definition translate_special (s : text) (i : irow) : res codepkg :=
  let m := mnem i in
  do pb <- (if is_pshpul m then
              (if Nat.eqb (length s) 0 then OTE else pshpul_mask m (split_on 44 s) 0)
            else if is_tfrexg m then
              match split_on 44 s with
              | [r1; r2] => match lookup_tfrexg m r1 r2 Tables.tfrexg_table with Some b => Ok b | None => OTE end
              | _ => OTE
              end
            else Ok 0);
  match Tables.imm i with
  | None => Diag 24                      (* NumericValue(None): TypeError inside the wrapped translate *)
  | Some opc =>
      do ov <- numv opc; do pv <- numv pb;
      Ok {| cp_op := ov; cp_addr := VNone; cp_post := pv; cp_add := VNone; cp_size := Tables.imm_sz i;
            cp_needs := false; cp_choices := []; cp_max := Tables.imm_sz i |}
  end.


Definition translate_pseudo (v : value) (i : irow) : res codepkg :=
  let m := mnem i in
  if text_eqb m FCB_t then
    if v_is_multi v then Ok (data_pkg v (v_byte_len v))
    else match v with VPyNone => Diag 24 | _ => do a <- (if v_is_numeric v then fit_value v 2 true else Ok v); Ok (data_pkg a 1) end
  else if text_eqb m FDB_t then
    if v_is_multi v then Ok (data_pkg v (v_byte_len v))
    else match v with VPyNone => Diag 24 | _ => do a <- (if v_is_numeric v then fit_value v 4 true else Ok v); Ok (data_pkg a 2) end
  else if text_eqb m RMB_t then
    do a <- numv_h 0 (v_int v * 2); Ok (data_pkg a (v_int v))
  else if text_eqb m ORG_t then
    Ok {| cp_op := VNone; cp_addr := v; cp_post := VNone; cp_add := VNone; cp_size := 0; cp_needs := false;
          cp_choices := []; cp_max := 0 |}
  else if text_eqb m FCC_t then Ok (data_pkg v (v_byte_len v))
  else Ok cp_empty.

(* register bits by substring of the right-hand side *)
Definition reg_bits (r : text) : N :=
  N.lor (N.lor (if contains t_Y r then 32 else 0) (if contains t_U r then 64 else 0)) (if contains t_S r then 96 else 0).

Definition left_is_empty_or_zero (l : side) (r : text) : bool :=
  match l with
  | LStr t => Nat.eqb (length t) 0
  | LVal v => v_is_numeric v && (v_int v =? 0) && negb (contains [80; 67; 82] r)
  end.
Definition left_abd (l : side) : option text := match l with LStr t => if is_abd t then Some t else None | _ => None end.

Definition plus : text := [43].  Definition minus : text := [45].
Definition pp : text := [43; 43].  Definition mm : text := [45; 45].

Definition mk_idx_pkg (opc raw : N) (choices : list N) (add : value) (size mx : N) (needs : bool) : res codepkg :=
  do ov <- numv opc; do pv <- numv raw;
  Ok {| cp_op := ov; cp_addr := VNone; cp_post := pv; cp_add := add; cp_size := size; cp_needs := needs;
        cp_choices := choices; cp_max := N.max size mx |}.

(* IndexedOperand.translate (indirect = false) and the general path of
   ExtendedIndexedOperand.translate (indirect = true) *)
(* INDEX_REGISTER_REGEX ^(-{0,2}[XYUS]|[XYUS]\+{0,2}|PCR)$ (repair F37) *)
Definition valid_index_reg (r : text) : bool :=
  existsb (text_eqb r)
    ([80; 67; 82] :: flat_map (fun c => [[c]; [45; c]; [45; 45; c]; [c; 43]; [c; 43; 43]]) [88; 89; 85; 83]).

Definition translate_indexed (indirect : bool) (l : side) (r : text) (i : irow) : res codepkg :=
  opt_op (Tables.ind i) (fun opc =>
  if negb (valid_index_reg r) then OTE else
  (* ,PCR needs an offset; an accumulator offset needs a plain index register (repair F49) *)
  if (match l with LStr t => Nat.eqb (length t) 0 | LVal _ => false end) && text_eqb r t_PCR then OTE else
  if (match left_abd l with Some _ => true | None => false end) && negb (existsb (text_eqb r) [[88]; [89]; [85]; [83]]) then OTE else
  let sz := Tables.ind_sz i in
  let ib := if indirect then 16 else 0 in              (* the indirect bit *)
  let raw0 := N.lor (if indirect then 128 else 0) (reg_bits r) in
  let pm := mem_c 43 r || mem_c 45 r in
  if left_is_empty_or_zero l r then
    if indirect then
      if pm then
        if existsb (text_eqb r) [[88;43]; [89;43]; [85;43]; [83;43]; [45;88]; [45;89]; [45;85]; [45;83]] then OTE
        else mk_idx_pkg opc (N.lor (N.lor raw0 (if contains pp r then 17 else 0)) (if contains mm r then 19 else 0))
                        [] VNone sz sz false
      else mk_idx_pkg opc (N.lor raw0 20) [] VNone sz sz false
    else
      let raw1 := N.lor raw0 128 in
      if pm then
        mk_idx_pkg opc (N.lor (N.lor (N.lor raw1 (if contains pp r then 1 else 0)) (if mem_c 45 r then 2 else 0))
                              (if contains mm r then 3 else 0)) [] VNone sz sz false
      else mk_idx_pkg opc (N.lor raw1 4) [] VNone sz sz false
  else match left_abd l with
  | Some a =>
      let code := if text_eqb a t_A then 6 else if text_eqb a t_B then 5 else 11 in
      mk_idx_pkg opc (N.lor (N.lor raw0 128) (N.lor code ib)) [] VNone sz sz false
  | None =>
    if pm then OTE else
    match l with
    | LStr _ => Diag 24            (* unreachable after resolve_symbols: a str has no is_address() *)
    | LVal VPyNone => Diag 24
    | LVal lv0 =>
        do lv <- (if v_is_address lv0 then numv (v_int lv0) else Ok lv0);
        let needs := v_is_address lv0 || v_is_expr lv0 || v_is_addr_expr lv0 in
        if contains t_PCR r then
          if needs then mk_idx_pkg opc raw0 [N.lor 140 ib; N.lor 141 ib] lv sz (sz + 2) true
          else
            let wide := negb (v_is_8_bit lv && negb (v_is_extended lv)) in
            do a <- fit_value lv (if wide then 4 else 2) true;
            let size := sz + (if wide then 2 else 1) in
            mk_idx_pkg opc (N.lor raw0 (N.lor (if wide then 141 else 140) ib)) [] a size size needs
        else if needs then
          (* a label as the constant offset: the 16-bit form, filled in by fix_addresses (repair F43) *)
          mk_idx_pkg opc (N.lor raw0 (N.lor 137 ib)) [] lv (sz + 2) sz true
        else
          match lv with
          | VNum n =>
              if n_neg n then
                if negb indirect && is_4_bit n then
                  mk_idx_pkg opc (N.lor (N.lor raw0 16) (16 - n_int n)) [] VNone sz sz needs
                else if is_8_bit n then
                  do a <- numv (256 - n_int n);
                  mk_idx_pkg opc (N.lor raw0 (N.lor 136 ib)) [] a (sz + 1) sz needs
                else
                  do a <- numv (65536 - n_int n);
                  mk_idx_pkg opc (N.lor raw0 (N.lor 137 ib)) [] a (sz + 2) sz needs
              else if negb indirect && is_4_bit n then
                mk_idx_pkg opc (N.lor raw0 (n_int n)) [] VNone sz sz needs
              else if is_8_bit n then
                do a <- numv_h (n_int n) 2;
                mk_idx_pkg opc (N.lor raw0 (N.lor 136 ib)) [] a (sz + 1) sz needs
              else if negb (is_4_bit n) then
                do a <- numv_h (n_int n) 4;
                mk_idx_pkg opc (N.lor raw0 (N.lor 137 ib)) [] a (sz + 2) sz needs
              else
                (* indirect, 0 < value <= 15 is 8-bit by is_8_bit: unreachable; kept total *)
                mk_idx_pkg opc (N.lor raw0 (N.lor 136 ib)) [] lv (sz + 1) sz needs
          | _ =>
              if indirect then
                let size := sz + v_byte_len lv in
                mk_idx_pkg opc (N.lor raw0 (N.lor (if v_is_extended lv then 137 else 136) ib)) [] lv size size needs
              else Diag 24        (* Value has no is_4_bit(): AttributeError inside the wrapped translate *)
          end
    end
  end).

Definition translate_operand (o : operand) (i : irow) : res codepkg :=
  match o with
  | OPseudo _ v => translate_pseudo v i
  | OSpecial s => translate_special s i
  | ORelative VPyNone => Diag 24
  | ORelative v =>
      match Tables.rel i with
      | None => Diag 24
      | Some opc => if v_is_address v then simple_pkg opc v (Tables.rel_sz i) else OTE
      end
  | OInherent => opt_op (Tables.inh i) (fun opc => simple_pkg opc VNone (Tables.inh_sz i))
  | OImmediate VPyNone | ODirect VPyNone | OExtended VPyNone => Diag 24
  | OImmediate v => opt_op (Tables.imm i) (fun opc =>
      do a <- (if v_is_numeric v then fit_value v (imm_digits i) true else Ok v); simple_pkg opc a (Tables.imm_sz i))
  | ODirect v => opt_op (Tables.dir i) (fun opc =>
      do a <- (if v_is_numeric v then fit_value v 2 false else Ok v); simple_pkg opc a (Tables.dir_sz i))
  | OExtended v => opt_op (Tables.ext i) (fun opc =>
      do a <- (if v_is_numeric v then fit_value v 4 true else Ok v); simple_pkg opc a (Tables.ext_sz i))
  | OUnknown v => Ok {| cp_op := VNone; cp_addr := VNone; cp_post := VNone; cp_add := v; cp_size := 0;
                        cp_needs := false; cp_choices := []; cp_max := 0 |}
  | OExtIdx s v l r =>
      opt_op (Tables.ind i) (fun opc =>
      match v with
      | VPyNone => Diag 24
      | VAddr _ | VExpr _ _ _ _ true =>       (* [label] and [label+n] (repair F42) *)
          mk_idx_pkg opc 159 [] v (Tables.ind_sz i + 2) (Tables.ind_sz i + 2) false
      | VNum _ => do a <- fit_value v 4 true; mk_idx_pkg opc 159 [] a (Tables.ind_sz i + 2) (Tables.ind_sz i + 2) false
      | _ => match r with
             | None => Diag 24        (* "X" in NoneValue: TypeError inside the wrapped translate *)
             | Some rt => translate_indexed true l rt i
             end
      end)
  | OIndexed s l r => translate_indexed false l r i
  end.
