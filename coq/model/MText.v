(* MText.v — text (list of ASCII codes) utilities used by the assembler model: character classes of
   Python's re (ASCII only), spans, splitting, number parsing, hex-digit rendering.
   Domain: 7-bit ASCII source text (stated in the trusted base). *)
From V Require Import Base.
From Coq Require String Ascii.
Local Open Scope N_scope.

Definition text := list N.

Definition text_of_string (s : String.string) : text := map Ascii.N_of_ascii (String.list_ascii_of_string s).

Definition in_range (a b c : N) : bool := (a <=? c) && (c <=? b).
Definition is_digit (c : N) : bool := in_range 48 57 c.
Definition is_upper (c : N) : bool := in_range 65 90 c.
Definition is_lower (c : N) : bool := in_range 97 122 c.
Definition is_alpha (c : N) : bool := is_upper c || is_lower c.
Definition is_word (c : N) : bool := is_alpha c || is_digit c || (c =? 95).          (* \w *)
Definition is_space (c : N) : bool := in_range 9 13 c || in_range 28 32 c.           (* \s and str.strip() *)
Definition is_hexdigit (c : N) : bool := is_digit c || in_range 65 70 c || in_range 97 102 c.
Definition is_labelch (c : N) : bool := is_word c || (c =? 64).                      (* [\w@] *)
Definition is_symch (c : N) : bool := is_word c || (c =? 64).                        (* [\w@] (F36) *)
Definition upper_c (c : N) : N := if is_lower c then c - 32 else c.
Definition upper_t (t : text) : text := map upper_c t.

(* the operand character class of ASM_LINE_REGEX *)
Definition is_opch (c : N) : bool :=
  is_word c ||
  existsb (N.eqb c) [91; 93; 62; 60; 39; 34; 64; 58; 44; 46; 35; 63; 36; 37; 94; 38; 42; 40; 41; 61; 33; 43; 45; 47].

(* the class of CHAR_REGEX; its +-/ is the range 43..47 *)
Definition is_charlit (c : N) : bool :=
  is_alpha c || is_digit c ||
  existsb (N.eqb c) [62; 60; 39; 34; 59; 58; 44; 46; 35; 63; 36; 37; 94; 38; 42; 40; 41; 61; 33] || in_range 43 47 c.

Fixpoint span (p : N -> bool) (t : text) : text * text :=
  match t with
  | [] => ([], [])
  | c :: r => if p c then let '(a, b) := span p r in (c :: a, b) else ([], t)
  end.

Definition text_eqb := list_eqb.

Fixpoint mem_c (c : N) (t : text) : bool := match t with [] => false | x :: r => (x =? c) || mem_c c r end.

(* substring test: sub in t *)
Fixpoint contains (sub t : text) : bool :=
  match t with
  | [] => match sub with [] => true | _ => false end
  | _ :: r => starts_with sub t || contains sub r
  end.

(* str.split(sep) for a single-character separator *)
Fixpoint split_on (sep : N) (t : text) : list text :=
  match t with
  | [] => [[]]
  | c :: r =>
      if c =? sep then [] :: split_on sep r
      else match split_on sep r with
           | [] => [[c]]
           | h :: tl => (c :: h) :: tl
           end
  end.

(* str.find(c, 1): index of the first occurrence of c at position >= 1 *)
Fixpoint find_from (c : N) (t : text) (k : nat) : option nat :=
  match t with
  | [] => None
  | x :: r => if x =? c then Some k else find_from c r (S k)
  end.

Definition lstrip (t : text) : text := snd (span is_space t).
Definition rstrip (t : text) : text := rev (lstrip (rev t)).
Definition strip (t : text) : text := rstrip (lstrip t).

(* ---- numbers ---- *)
Definition digit_val (c : N) : N :=
  if is_digit c then c - 48 else if in_range 65 70 c then c - 55 else if in_range 97 102 c then c - 87 else 0.

Fixpoint parse_base (base : N) (t : text) (acc : N) : N :=
  match t with [] => acc | c :: r => parse_base base r (acc * base + digit_val c) end.

(* natural upper-case hex digits of v, most significant first (one zero digit for 0) *)
Fixpoint hexdigits_aux (fuel : nat) (v : N) (acc : list N) : list N :=
  match fuel with
  | O => acc
  | S f => if v <? 16 then v :: acc else hexdigits_aux f (v / 16) (v mod 16 :: acc)
  end.
Definition hexdigits (v : N) : list N := hexdigits_aux 40 v [].

(* format v in upper-case hex, left-padded with zeros to width w *)
Definition fmt_hex (w : nat) (v : N) : list N :=
  let d := hexdigits v in repeat 0 (w - length d) ++ d.

Definition even_up (n : nat) : nat := if Nat.even n then n else S n.
