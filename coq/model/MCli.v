(* MCli.v — assembler.py main(): Program.process followed by the save part (MVirtualFile.asm_save), and
   the way Program.origin (a Value) reaches the container headers.
   assembler.py passes load_addr = exec_addr = program.origin to CoCoFile; the cassette writer
   (append_header) and the disk writer (MLPreamble / Postamble .write) call .high_byte() / .low_byte()
   on it.  program.origin is NoneValue() when there is no ORG, otherwise the code_pkg.address of the
   last ORG statement.  Hand-written; tied to the code by harness/vfile.py (C11). *)
From V Require Import Base.
From V.model Require Import MText MValues MProgram.
From V.model Require MCassette MDisk.
From V.model Require Import MVirtualFile.
Local Open Scope N_scope.

(* int(s, 16) of a string of hex digits (digits are kept as nibbles in MValues) *)
Definition nibbles_val (l : list N) : N := fold_left (fun a d => a * 16 + d) l 0.

(* Value.high_byte: 0 when hex_len() <= 2, else int(hex()[0:2], 16) *)
Definition high_byte (v : value) : N :=
  if Nat.leb (v_hex_len v) 2 then 0
  else match v_hex v with Some h => nibbles_val (firstn 2 h) | None => 0 end.

(* Value.low_byte: 0 when hex_len() = 0; int(hex()[0:2], 16) when hex_len() <= 2; else int(hex()[2:], 16) *)
Definition low_byte (v : value) : N :=
  if Nat.eqb (v_hex_len v) 0 then 0
  else match v_hex v with
       | Some h => if Nat.leb (v_hex_len v) 2 then nibbles_val (firstn 2 h) else nibbles_val (skipn 2 h)
       | None => 0
       end.

(* the 16-bit word the two header bytes spell; None = program.origin is NoneValue() (both bytes 0) *)
Definition origin_word (o : option value) : N :=
  match o with None => 0 | Some v => high_byte v * 256 + low_byte v end.

(* what main() hands to the save part: program.name (None -> falls back to --name), origin, image *)
Definition program_of_result (r : result) : program :=
  {| p_name := match r_name r with Some n => n | None => [] end;
     p_origin := origin_word (r_origin r);
     p_image := r_image r |}.

(* main(): a ParseError / TranslationError is printed and the process exits 1 before anything is saved;
   any other exception is a traceback (exit 1); otherwise the saves run and the exit status is 0 *)
Definition assembler_main (fs : hostfs) (a : asm_args) (fm : filemap) (lines : list text)
  : hostfs * list event * N :=
  match classify (assemble fm lines) with
  | inl r => let '(fs', ev) := asm_save fs a (program_of_result r) in (fs', ev, 0)
  | inr e => (fs, [EError e], 1)
  end.
