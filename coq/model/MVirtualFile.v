(* MVirtualFile.v — executable model of cocoasm/virtualfiles/virtual_file.py (container sniffing,
   open / add / save over an abstract host file system), of the main flows of file_util.py
   (--list / --to_cas / --to_dsk / --to_bin, --files, --append) and of the save part of assembler.py
   (name choice, no-name guard, one save per switch inside try/except).
   The containers themselves are NOT re-modelled: MCassette.write / MCassette.list_files and
   MDisk.add_files / image_of / list_files are used as they are.
   Hand-written; tied to the code by the correspondence check (harness/vfile.py). *)
From V Require Import Base.
From V.spec Require Import SpecTape SpecDisk.
From V.model Require Import MCassette MDisk.
Local Open Scope N_scope.

(* ---------- coco_file.py: the record handed between readers, CLIs and writers ---------- *)
(* gaps / ascii / ignore_gaps only affect printing and are not stored by any writer. *)
Record cocofile := { f_name : list byte; f_ext : list byte; f_type : byte; f_dtype : byte;
                     f_load : N; f_exec : N; f_data : list byte }.

(* what CassetteFile.add_file reads of a CoCoFile: the extension is ignored *)
Definition to_cfile (f : cocofile) : cfile :=
  {| c_name := f_name f; c_type := f_type f; c_dtype := f_dtype f;
     c_load := f_load f; c_exec := f_exec f; c_data := f_data f |}.

Definition ext_BIN : list byte := [66; 73; 78].
Definition ext_BAS : list byte := [66; 65; 83].
Definition ext_bin : list byte := [98; 105; 110].

(* what CassetteFile.read_file builds: the extension is invented from the type byte *)
Definition of_cfile (c : cfile) : cocofile :=
  {| f_name := c_name c; f_ext := if c_type c =? 2 then ext_BIN else ext_BAS;
     f_type := c_type c; f_dtype := c_dtype c; f_load := c_load c; f_exec := c_exec c; f_data := c_data c |}.

(* what DiskFile.add_file reads of a CoCoFile / what DiskFile.list_files builds
   (NoneValue addresses of BASIC / ASCII files read back as 0 through .int / high_byte / low_byte) *)
Definition to_dfile (f : cocofile) : dfile :=
  {| d_name := f_name f; d_ext := f_ext f; d_type := f_type f; d_ascii := f_dtype f;
     d_load := f_load f; d_exec := f_exec f; d_data := f_data f |}.
Definition of_dfile (d : dfile) : cocofile :=
  {| f_name := d_name d; f_ext := d_ext d; f_type := d_type d; f_dtype := d_ascii d;
     f_load := d_load d; f_exec := d_exec d; f_data := d_data d |}.

(* a file as it lists after one trip through a cassette / a disk *)
Definition normc (f : cocofile) : cocofile := of_cfile (MCassette.norm (to_cfile f)).
Definition normd (f : cocofile) : cocofile := of_dfile (MDisk.norm (to_dfile f)).

(* ---------- VirtualFileType and the host file system ---------- *)
Inductive vkind := KCas | KBin | KDsk.
Definition vkind_eqb (a b : vkind) : bool :=
  match a, b with KCas, KCas | KBin, KBin | KDsk, KDsk => true | _, _ => false end.

Definition path := list byte.
Definition hostfs := path -> option (list byte).
Definition upd (fs : hostfs) (p : path) (c : list byte) : hostfs :=
  fun q => if list_eqb p q then Some c else fs q.

(* ---------- VirtualFile.get_coco_files ---------- *)
(* The disk reader is tried first; only a VirtualFileValidationError (Diag) moves on to the cassette
   reader; its listing makes the content a CASSETTE only if it holds at least one file or the buffer
   is empty (`if coco_files or not buffer`); otherwise, and on a VirtualFileValidationError there,
   the content is BINARY with no files.  Any other exception
   escapes (the CLIs print it).  A buffer shorter than 161,280 bytes makes DiskFile.list_files raise;
   one LONGER than that is outside MDisk.list_files' domain (Unmodelled) — known finding
   tape_sniffed_as_disk lives there. *)
(* DiskFile.validate_allocation_table (repair F48): the entry of every granule is free ($FF), a last-granule
   marker ($C0-$C9) or the number of another granule that is itself in use; content without such a table
   is not a disk image.  The table is buf[78592:78660] = the first 68 bytes of the FAT sector of slice buf. *)
Definition fat_entry_ok (ft : list byte) (g : nat) (e : byte) : bool :=
  if e <? 68 then negb (e =? N.of_nat g) && negb (nth (N.to_nat e) ft 0 =? 255)
  else ((192 <=? e) && (e <=? 201)) || (e =? 255).

Definition fat_plausible (buf : list byte) : bool :=
  let ft := firstn 68 (fat (slice buf)) in
  Nat.eqb (length ft) 68 && forallb (fun ge => fat_entry_ok ft (fst ge) (snd ge)) (combine (seq 0 68) ft).

Definition sniff (buf : list byte) : res (list cocofile * vkind) :=
  match (if fat_plausible buf then MDisk.list_files buf else Diag 4) with
  | Ok ds => Ok (map of_dfile ds, KDsk)
  | Diag _ =>
      match MCassette.list_files buf with
      | Ok cs => match cs, buf with
                 | [], _ :: _ => Ok ([], KBin)     (* no tape file found in non-empty content: not a cassette *)
                 | _, _ => Ok (map of_cfile cs, KCas)
                 end
      | Diag _ => Ok ([], KBin)
      | Internal c => Internal c
      | OutOfFuel => OutOfFuel
      | Unmodelled => Unmodelled
      end
  | Internal c => Internal c
  | OutOfFuel => OutOfFuel
  | Unmodelled => Unmodelled
  end.

Definition sniff_kind (buf : list byte) : res vkind := do (_, k) <- sniff buf; Ok k.

(* ---------- VirtualFile: open / add / save ---------- *)
Record vfile := { v_kind : option vkind; v_files : list cocofile; v_exists : bool }.

(* Diag 20 = "[path] is not of type <sniffed>";  old = the content of the path, None if it does not exist *)
Definition open_vf (want : option vkind) (old : option (list byte)) : res vfile :=
  match old with
  | None => Ok {| v_kind := want; v_files := []; v_exists := false |}
  | Some buf =>
      do (fl, k) <- sniff buf;
      match want with
      | Some w => if vkind_eqb w k then Ok {| v_kind := Some k; v_files := fl; v_exists := true |} else Diag 20
      | None => Ok {| v_kind := Some k; v_files := fl; v_exists := true |}
      end
  end.

Definition add_vf (v : vfile) (f : cocofile) : vfile :=
  {| v_kind := v_kind v; v_files := v_files v ++ [f]; v_exists := v_exists v |}.
Definition add_all (v : vfile) (fl : list cocofile) : vfile := fold_left add_vf fl v.

(* the image of a kind built from scratch from a file list (CassetteFile() / BinaryFile() / DiskFile() + add_files) *)
Definition build_image (k : vkind) (fl : list cocofile) : res (list byte) :=
  match k with
  | KCas => Ok (MCassette.write (map to_cfile fl))
  | KBin => Ok (concat (map f_data fl))
  | KDsk => do st <- MDisk.add_files default_order [] (map to_dfile fl); Ok (image_of st)
  end.

(* save_virtual_file: the image is built BEFORE the exists/append test (so a full disk is reported
   first); Diag 21 = FileExistsError "Target file [..] already exists, use --append to overwrite".
   Result: Some bytes = what write_binary_contents writes to the path; None = nothing written
   (no container kind was ever set: none of the three branches runs). *)
Definition save_vf (v : vfile) (append : bool) : res (option (list byte)) :=
  match v_kind v with
  | None => Ok None
  | Some k =>
      do img <- build_image k (v_files v);
      if v_exists v && negb append then Diag 21 else Ok (Some img)
  end.

(* open(path, kind); add every new file; save — what both CLIs do for each output switch *)
Definition store (req : vkind) (append : bool) (old : option (list byte)) (new : list cocofile)
  : res (option (list byte)) :=
  do v <- open_vf (Some req) old; save_vf (add_all v new) append.

(* ---------- outcomes as the CLIs print them ---------- *)
Inductive err := EDiag (c : N) | EInternal (c : N) | EFuel | EUnmod.
Definition classify {A} (r : res A) : A + err :=
  match r with
  | Ok a => inl a
  | Diag c => inr (EDiag c)
  | Internal c => inr (EInternal c)
  | OutOfFuel => inr EFuel
  | Unmodelled => inr EUnmod
  end.

Inductive event :=
| EListed (f : cocofile)                 (* file_util --list: "-- File #n --" + the file *)
| EFile (n : nat) (name : list byte)     (* "-- File #n [NAME] --" *)
| ESaved (k : vkind)                     (* "Saved to <path>" *)
| EMoreThanOne                           (* "More than one file exists in virtual container, not saving" *)
| EError (e : err)                       (* file_util: print(error) *)
| ENoName (k : vkind)                    (* "No name for the program specified, not creating ... file" *)
| EUnable (k : vkind) (e : err).         (* "Unable to save ... file:" + the error *)

(* ---------- file_util.py ---------- *)
(* str.strip() on 7-bit text: \t \n \v \f \r, \x1c..\x1f and the blank *)
Definition is_space (b : byte) : bool := ((9 <=? b) && (b <=? 13)) || ((28 <=? b) && (b <=? 32)).
Fixpoint lstrip (l : list byte) : list byte :=
  match l with [] => [] | b :: r => if is_space b then lstrip r else l end.
Definition strip (l : list byte) : list byte := rev (lstrip (rev (lstrip l))).

(* file.name.strip().replace("\0", "").upper() *)
Definition clean_name (n : list byte) : list byte :=
  map upper (filter (fun b => negb (b =? 0)) (strip n)).

(* files_to_include = [x.upper() for x in args.files] if args.files else None;  `filename in files_to_include` *)
Definition selected (req : option (list (list byte))) (f : cocofile) : bool :=
  match req with
  | None => true
  | Some l => existsb (list_eqb (clean_name (f_name f))) (map (map upper) l)
  end.

(* the "-- File #n [NAME] --" lines of one conversion loop: numbering is the position in the source *)
Fixpoint file_lines (req : option (list (list byte))) (n : nat) (fl : list cocofile) : list event :=
  match fl with
  | [] => []
  | f :: r => (if selected req f then [EFile n (clean_name (f_name f))] else []) ++ file_lines req (S n) r
  end.

Record fu_args := { a_host : path; a_append : bool; a_list : bool;
                    a_to_bin : option path; a_to_cas : option path; a_to_dsk : option path;
                    a_files : option (list (list byte)) }.

(* state threaded through main: file system, printed events, exit code once the process has ended *)
Definition fu_state := (hostfs * list event * option N)%type.

(* one `if args.to_cas:` / `if args.to_dsk:` block *)
Definition conv_step (k : vkind) (src : vfile) (append : bool) (req : option (list (list byte)))
           (p : path) (fs : hostfs) : fu_state :=
  match classify (open_vf (Some k) (fs p)) with
  | inr e => (fs, [EError e], Some 1)
  | inl t =>
      let lines := file_lines req 1 (v_files src) in
      match classify (save_vf (add_all t (filter (selected req) (v_files src))) append) with
      | inr e => (fs, lines ++ [EError e], Some 1)
      | inl (Some img) => (upd fs p img, lines ++ [ESaved k], None)
      | inl None => (fs, lines ++ [ESaved k], None)
      end
  end.

(* the `if args.to_bin:` block: target opened first, then the more-than-one test, then files[0]
   (Internal 2 = IndexError on an empty container) *)
Definition bin_step (src : vfile) (append : bool) (req : option (list (list byte)))
           (p : path) (fs : hostfs) : fu_state :=
  match classify (open_vf (Some KBin) (fs p)) with
  | inr e => (fs, [EError e], Some 1)
  | inl t =>
      match v_files src with
      | _ :: _ :: _ => (fs, [EMoreThanOne], Some 1)
      | [] => (fs, [EError (EInternal 2)], Some 1)
      | [f] =>
          let lines := file_lines req 1 [f] in
          match classify (save_vf (add_all t (filter (selected req) [f])) append) with
          | inr e => (fs, lines ++ [EError e], Some 1)
          | inl (Some img) => (upd fs p img, lines ++ [ESaved KBin], None)
          | inl None => (fs, lines ++ [ESaved KBin], None)
          end
      end
  end.

(* run the next block unless the process has already exited *)
Definition andthen (s : fu_state) (sw : option path) (step : path -> hostfs -> fu_state) : fu_state :=
  match s, sw with
  | (fs, ev, None), Some p => let '(fs', ev', x) := step p fs in (fs', ev ++ ev', x)
  | _, _ => s
  end.

Definition file_util (fs : hostfs) (a : fu_args) : hostfs * list event * N :=
  match classify (open_vf None (fs (a_host a))) with
  | inr e => (fs, [EError e], 1)
  | inl src =>
      if a_list a then (fs, map EListed (v_files src), 0)
      else
        let s0 : fu_state := (fs, [], None) in
        let s1 := andthen s0 (a_to_cas a) (conv_step KCas src (a_append a) (a_files a)) in
        let s2 := andthen s1 (a_to_dsk a) (conv_step KDsk src (a_append a) (a_files a)) in
        let '(fs3, ev3, x3) := andthen s2 (a_to_bin a) (bin_step src (a_append a) (a_files a)) in
        (fs3, ev3, match x3 with Some c => c | None => 0 end)
  end.

(* the pure core of one conversion: source image bytes -> bytes written to the target *)
Definition convert (k : vkind) (req : option (list (list byte))) (append : bool)
           (src : list byte) (old : option (list byte)) : res (option (list byte)) :=
  do (fl, _) <- sniff src; store k append old (filter (selected req) fl).

(* ---------- assembler.py, after Program.process ---------- *)
(* name = NAM operand ([] = none), origin = address of the ORG statement (0 = none), image = get_binary_array() *)
Record program := { p_name : list byte; p_origin : N; p_image : list byte }.
Record asm_args := { s_to_bin : option path; s_to_cas : option path; s_to_dsk : option path;
                     s_name : list byte; s_append : bool }.

(* CoCoFile(name=program.name or args.name, load_addr=exec_addr=program.origin, data=..., extension="bin",
            type=NumericValue(2), data_type=NumericValue(0)) *)
Definition asm_file (a : asm_args) (p : program) : cocofile :=
  {| f_name := match p_name p with [] => s_name a | n => n end; f_ext := ext_bin;
     f_type := 2; f_dtype := 0; f_load := p_origin p; f_exec := p_origin p; f_data := p_image p |}.

(* one try/except block: every exception is printed and the run continues *)
Definition asm_step (k : vkind) (append : bool) (f : cocofile) (p : path) (fs : hostfs) : hostfs * list event :=
  match classify (store k append (fs p) [f]) with
  | inl (Some img) => (upd fs p img, [])
  | inl None => (fs, [])
  | inr e => (fs, [EUnable k e])
  end.

(* the no-name guard RETURNS from main: a later --to_dsk is skipped as well *)
Definition asm_save (fs : hostfs) (a : asm_args) (p : program) : hostfs * list event :=
  let f := asm_file a p in
  let noname := match f_name f with [] => true | _ => false end in
  let '(fs1, ev1) := match s_to_bin a with Some q => asm_step KBin (s_append a) f q fs | None => (fs, []) end in
  match s_to_cas a with
  | Some q =>
      if noname then (fs1, ev1 ++ [ENoName KCas])
      else
        let '(fs2, ev2) := asm_step KCas (s_append a) f q fs1 in
        match s_to_dsk a with
        | Some r => let '(fs3, ev3) := asm_step KDsk (s_append a) f r fs2 in (fs3, ev1 ++ ev2 ++ ev3)
        | None => (fs2, ev1 ++ ev2)
        end
  | None =>
      match s_to_dsk a with
      | Some r =>
          if noname then (fs1, ev1 ++ [ENoName KDsk])
          else let '(fs3, ev3) := asm_step KDsk (s_append a) f r fs1 in (fs3, ev1 ++ ev3)
      | None => (fs1, ev1)
      end
  end.

(* ---------- histories (C09): add a file / save the image and open it again from its bytes ---------- *)
Inductive hop := Add (f : cocofile) | SaveReopen.

Fixpoint adds (h : list hop) : list cocofile :=
  match h with [] => [] | Add f :: r => f :: adds r | SaveReopen :: r => adds r end.

(* save to a path that holds what the previous save wrote (append mode), then open that path again *)
Definition reopen (k : vkind) (v : vfile) : res vfile :=
  do img <- build_image k (v_files v); open_vf (Some k) (Some img).

Fixpoint run_hist (k : vkind) (h : list hop) (v : vfile) : res vfile :=
  match h with
  | [] => Ok v
  | Add f :: r => run_hist k r (add_vf v f)
  | SaveReopen :: r => do v' <- reopen k v; run_hist k r v'
  end.

Definition new_vf (k : vkind) : vfile := {| v_kind := Some k; v_files := []; v_exists := false |}.

(* the bytes a final save writes after a history *)
Definition image_after (k : vkind) (h : list hop) : res (list byte) :=
  do v <- run_hist k h (new_vf k); build_image k (v_files v).
