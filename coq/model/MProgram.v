(* MProgram.v — executable model of cocoasm/statement.py and cocoasm/program.py: line splitting
   (the three regexes), Statement.parse_line, INCLUDE expansion over an abstract file map, symbol
   collection, the resolve / translate passes, the PCR size loop (with fuel), address assignment,
   fix_addresses, symbol back-patch, origin/name, byte emission. *)
From V Require Import Base.
From V.model Require Import MText MValues MOperands.
From V.gen Require Tables.
Local Open Scope N_scope.

Record stmt := { s_label : text; s_instr : irow; s_operand : operand; s_opstr : text;
                 s_pkg : codepkg; s_fixed : bool; s_hint : N }.

(* Diag 1 = ParseError, Diag 2 = TranslationError *)
Definition as_parse_error {A} (r : res A) : res A := match r with Diag _ => Diag 1 | _ => r end.
Definition as_translation_error {A} (r : res A) : res A := match r with Diag _ => Diag 2 | _ => r end.

Fixpoint find_instr (m : text) (tb : list irow) : option irow :=
  match tb with
  | [] => None
  | i :: r => if text_eqb (mnem i) m then Some i else find_instr m r
  end.

Definition mk_stmt (label : text) (i : irow) (o : operand) (s : text) : stmt :=
  {| s_label := label; s_instr := i; s_operand := o; s_opstr := s; s_pkg := cp_empty; s_fixed := true; s_hint := 2 |}.

(* Statement.parse_line: None = blank or comment-only line *)
Definition parse_line (line : text) : res (option stmt) :=
  if mem_c 10 (removelast line) then Unmodelled           (* a newline inside the line: not produced by readlines() *)
  else if all_c is_space line then Ok None
  else if hd 0 (lstrip line) =? 59 then Ok None
  else
    let '(label, r1) := span is_labelch line in
    match r1 with
    | c1 :: _ =>
      if negb (is_space c1) then Diag 1 else
      let '(mn, r3) := span is_word (lstrip r1) in
      match r3 with
      | c2 :: _ =>
        if negb (is_space c2) then Diag 1 else
        let r4 := lstrip r3 in
        match find_instr (upper_t mn) Tables.instructions with
        | None => Diag 1
        | Some i =>
          if Tables.is_string_define i then
            let raw := rstrip r4 in
            match raw with
            | [] => Diag 1
            | d :: rest =>
                match find_from d rest 1 with
                | None => Diag 1
                | Some e =>
                    let s := firstn (S e) raw in
                    match create_operand s i with
                    | Ok o => Ok (Some (mk_stmt label i o s))
                    | Diag _ => Diag 1                    (* inside a try since repair F51 *)
                    | Internal k => Internal k | OutOfFuel => OutOfFuel | Unmodelled => Unmodelled
                    end
                end
            end
          else
            let '(ops, _) := span is_opch r4 in
            do o <- as_parse_error (create_operand ops i);
            Ok (Some (mk_stmt label i o ops))
        end
      | [] => Diag 1
      end
    | [] => Diag 1
    end.

Fixpoint parse_lines (lines : list text) : res (list stmt) :=
  match lines with
  | [] => Ok []
  | l :: r => do s <- parse_line l; do rest <- parse_lines r;
              Ok (match s with Some st => st :: rest | None => rest end)
  end.

(* ---------- INCLUDE expansion (Program.process_mnemonics) ---------- *)
Definition filemap := list (text * list text).
Fixpoint lookup_file (n : text) (fm : filemap) : option (list text) :=
  match fm with [] => None | (k, v) :: r => if text_eqb k n then Some v else lookup_file n r end.

(* chain = the include files currently being expanded; a file that is already in the chain is a
   cycle (TranslationError since the F21 repair), an unknown file is unreadable (F20) *)
Fixpoint expand_list (rec : list text -> list stmt -> res (list stmt)) (fm : filemap) (chain : list text)
         (ss : list stmt) : res (list stmt) :=
  match ss with
  | [] => Ok []
  | s :: r =>
      if Tables.is_include (s_instr s) && negb (Nat.eqb (length (s_opstr s)) 0) then
        if existsb (text_eqb (s_opstr s)) chain then Diag 2
        else match lookup_file (s_opstr s) fm with
        | None => Diag 2
        | Some ls => do inner <- parse_lines ls; do inner' <- rec (chain ++ [s_opstr s]) inner;
                     do rest <- expand_list rec fm chain r; Ok (inner' ++ rest)
        end
      else do rest <- expand_list rec fm chain r; Ok (s :: rest)
  end.

(* fuel = nesting depth; S (number of files) is always enough because a chain never repeats a name *)
Fixpoint expand (fuel : nat) (fm : filemap) (chain : list text) (ss : list stmt) : res (list stmt) :=
  match fuel with
  | O => expand_list (fun _ _ => OutOfFuel) fm chain ss
  | S f => expand_list (expand f fm) fm chain ss
  end.

(* ---------- symbol table ---------- *)
Fixpoint save_symbols (ss : list stmt) (idx : N) (tb : symtab) : res symtab :=
  match ss with
  | [] => Ok tb
  | s :: r =>
      match s_label s with
      | [] => save_symbols r (idx + 1) tb
      | lb =>
          match lookup lb tb with
          | Some _ => Diag 2
          | None =>
              let v := if Tables.is_pseudo_define (s_instr s)
                       then match s_operand s with OPseudo _ v => v | _ => VNone end
                       else VAddr idx in
              save_symbols r (idx + 1) (tb ++ [(lb, v)])
          end
      end
  end.

(* Program.resolve_defined_symbol (repair F41): an EQU defined by a symbol or an expression gets that value *)
Fixpoint tb_set (k : text) (v : value) (tb : symtab) : symtab :=
  match tb with
  | [] => []
  | (k', v') :: r => if text_eqb k k' then (k', v) :: r else (k', v') :: tb_set k v r
  end.

Definition defined_error {A} (r : res A) : res A :=
  match r with Diag 24 => Internal E_ATTR | Diag 21 => Internal E_TYPE | Diag _ => Diag 2 | _ => r end.

Fixpoint resolve_defined (ss : list stmt) (tb : symtab) : res symtab :=
  match ss with
  | [] => Ok tb
  | s :: r =>
      match s_label s with
      | [] => resolve_defined r tb
      | lb =>
          if Tables.is_pseudo_define (s_instr s) then
            match lookup lb tb with
            | Some v =>
                if v_is_symbol v || v_is_expr v then
                  do v' <- defined_error (resolve_value v tb);
                  if v_is_numeric v' || v_is_address v' || v_is_addr_expr v' then resolve_defined r (tb_set lb v' tb)
                  else Diag 2
                else resolve_defined r tb
            | None => Internal E_ATTR
            end
          else resolve_defined r tb
      end
  end.

(* ---------- resolve and translate passes ---------- *)
Definition resolve_stmt (tb : symtab) (s : stmt) : res stmt :=
  do o <- as_translation_error (resolve_operand (s_operand s) (s_instr s) tb);
  Ok {| s_label := s_label s; s_instr := s_instr s; s_operand := o; s_opstr := s_opstr s; s_pkg := s_pkg s;
        s_fixed := s_fixed s; s_hint := s_hint s |}.

(* Operand.address_offset (repair F43): a label as the constant offset of a non-PCR register: the package
   needs resolution but offers no post-byte choices *)
Definition addr_offset (p : codepkg) : bool := cp_needs p && Nat.eqb (length (cp_choices p)) 0.

Definition translate_stmt (s : stmt) : res stmt :=
  do p <- as_translation_error (translate_operand (s_operand s) (s_instr s));
  Ok {| s_label := s_label s; s_instr := s_instr s; s_operand := s_operand s; s_opstr := s_opstr s; s_pkg := p;
        s_fixed := negb ((cp_needs p && negb (addr_offset p)) || negb (Nat.eqb (length (cp_choices p)) 0));
        s_hint := s_hint s |}.

Fixpoint map_res {A B} (f : A -> res B) (l : list A) : res (list B) :=
  match l with [] => Ok [] | a :: r => do b <- f a; do rest <- map_res f r; Ok (b :: rest) end.

(* ---------- the PCR size decision ---------- *)
Definition nth_stmt (ss : list stmt) (k : N) : option stmt := nth_error ss (N.to_nat k).

Fixpoint sum_range (f : stmt -> N) (ss : list stmt) (from count : nat) : N :=
  match count with
  | O => 0
  | S c => match nth_error ss from with Some s => f s | None => 0 end + sum_range f ss (S from) c
  end.

Definition operand_left (o : operand) : option side :=
  match o with OExtIdx _ _ l _ => Some l | OIndexed _ l _ => Some l | _ => None end.

Definition rel_index_of (s : stmt) : N :=
  match operand_left (s_operand s) with
  | Some (LVal (VExpr a _ b _ true)) => if v_is_address a then v_int a else v_int b
  | _ => v_int (cp_add (s_pkg s))
  end.

Definition set_pkg (s : stmt) (p : codepkg) (fixed : bool) (hint : N) : stmt :=
  {| s_label := s_label s; s_instr := s_instr s; s_operand := s_operand s; s_opstr := s_opstr s; s_pkg := p;
     s_fixed := fixed; s_hint := hint |}.

(* the statement after choosing post-byte choice k: size grows by add, max_size = size, fixed *)
Definition pcr_pick (s : stmt) (k : nat) (add hint : N) : res stmt :=
  let p := s_pkg s in
  match nth_error (cp_choices p) k with
  | None => Internal E_INDEX
  | Some c =>
      do pv <- numv (N.lor (v_int (cp_post p)) c);
      Ok (set_pkg s {| cp_op := cp_op p; cp_addr := cp_addr p; cp_post := pv; cp_add := cp_add p;
                       cp_size := cp_size p + add; cp_needs := cp_needs p; cp_choices := cp_choices p;
                       cp_max := cp_size p + add |} true hint)
  end.

(* the span estimate: (backward?, min_size, max_size) *)
Definition pcr_span (ss : list stmt) (this : N) (s : stmt) : bool * N * N :=
  let rel := rel_index_of s in
  let backward := rel <? this in
  let '(from, count) := if backward then (N.to_nat rel, N.to_nat (this + 1 - rel)) else (N.to_nat this, N.to_nat (rel - this)) in
  (backward, sum_range (fun x => cp_size (s_pkg x)) ss from count + 2, sum_range (fun x => cp_max (s_pkg x)) ss from count + 2).

(* ExpressionValue.constant_offset: the constant that label+n, n+label or label-n adds to its label (F34) *)
Definition const_offset (v : value) : option Z :=
  match v with
  | VExpr l op r _ true =>
      let sg := fun x => if v_negative x then (- Z.of_N (v_int x))%Z else Z.of_N (v_int x) in
      if (op =? 43) && v_is_address l && v_is_numeric r then Some (sg r)
      else if (op =? 43) && v_is_address r && v_is_numeric l then Some (sg l)
      else if (op =? 45) && v_is_address l && v_is_numeric r then Some (- sg r)%Z
      else None
  | _ => Some 0%Z
  end.

(* (offset, forced) for the statement's PCR target *)
Definition pcr_offset (s : stmt) (force : bool) : Z * bool :=
  match operand_left (s_operand s) with
  | Some (LVal (VExpr l op r m true)) =>
      match const_offset (VExpr l op r m true) with Some k => (k, force) | None => (0%Z, true) end
  | _ => (0%Z, force)
  end.

(* does the estimate allow the 8-bit form? *)
Definition pcr_fits8 (backward : bool) (mn mx : N) (off : Z) : bool :=
  if backward then (mn <=? 128) && (mx <=? 128) && (off <=? 127)%Z && (-128 <=? off - Z.of_N mx)%Z
  else (mn <=? 127) && (mx <=? 127) && (-128 <=? off)%Z && (Z.of_N mx + off <=? 127)%Z.

(* Statement.determine_pcr_relative_sizes(statements, this_index, force_16_bit) *)
Definition determine (ss : list stmt) (this : N) (force : bool) (s : stmt) : res stmt :=
  let '(backward, mn, mx) := pcr_span ss this s in
  let '(off, force') := pcr_offset s force in
  let lim := if backward then 128 else 127 in
  if pcr_fits8 backward mn mx off && negb force' then pcr_pick s 0%nat 1 2
  else if force' || negb (off =? 0)%Z || ((lim <? mn) && (lim <? mx)) then pcr_pick s 1%nat 2 4
  else Ok s.

Fixpoint update_nth {A} (k : nat) (a : A) (l : list A) : list A :=
  match l, k with
  | [], _ => []
  | _ :: r, O => a :: r
  | x :: r, S k' => x :: update_nth k' a r
  end.

(* one sweep of the for-loop: every statement that is not fixed yet is looked at once, in order,
   seeing the sizes already decided in this sweep; returns the new list and whether any got fixed *)
Fixpoint sweep (n : nat) (k : nat) (ss : list stmt) (progress : bool) : res (list stmt * bool) :=
  match n with
  | O => Ok (ss, progress)
  | S n' =>
      match nth_error ss k with
      | None => Ok (ss, progress)
      | Some s =>
          if s_fixed s then sweep n' (S k) ss progress
          else do s' <- determine ss (N.of_nat k) false s;
               sweep n' (S k) (update_nth k s' ss) (progress || s_fixed s')
      end
  end.

Definition all_fixed (ss : list stmt) : bool := forallb s_fixed ss.

Fixpoint first_unfixed (ss : list stmt) (k : nat) : option (nat * stmt) :=
  match ss with
  | [] => None
  | s :: r => if s_fixed s then first_unfixed r (S k) else Some (k, s)
  end.

(* while not all_sizes_fixed(): sweep; if nothing got fixed, the first undecided statement is forced to 16 bits *)
Fixpoint size_loop (fuel : nat) (ss : list stmt) : res (list stmt) :=
  if all_fixed ss then Ok ss else
  match fuel with
  | O => OutOfFuel
  | S f =>
      do r <- sweep (length ss) 0 ss false;
      let '(ss1, progress) := r in
      if progress then size_loop f ss1
      else match first_unfixed ss1 0 with
           | None => size_loop f ss1
           | Some (k, s) => do s' <- determine ss1 (N.of_nat k) true s; size_loop f (update_nth k s' ss1)
           end
  end.

(* ---------- addresses ---------- *)
(* a ValueTypeError raised outside any try block escapes as an internal error *)
Definition as_internal_value {A} (r : res A) : res A := match r with Diag _ => Internal E_VALUE | _ => r end.
(* emitted: some earlier statement has a size; an ORG that moves the address after that is rejected (F45) *)
Fixpoint assign_addresses (ss : list stmt) (address : N) (emitted : bool) : res (list stmt) :=
  match ss with
  | [] => Ok []
  | s :: r =>
      let p := s_pkg s in
      do pa <- (if v_is_none (cp_addr p) then do a <- as_translation_error (numv address); Ok (a, address)
                else match cp_addr p with VPyNone => Internal E_ATTR | a => Ok (a, v_int a) end);
      let '(av, a) := pa in
      if emitted && negb (a =? address) then Diag 2 else
      let s' := set_pkg s {| cp_op := cp_op p; cp_addr := av; cp_post := cp_post p; cp_add := cp_add p;
                             cp_size := cp_size p; cp_needs := cp_needs p; cp_choices := cp_choices p;
                             cp_max := cp_max p |} (s_fixed s) (s_hint s) in
      do rest <- assign_addresses r (a + cp_size p) (emitted || (0 <? cp_size p));
      Ok (s' :: rest)
  end.

(* ExpressionValue.calculate_address_offset(statements) *)
Definition addr_of (ss : list stmt) (k : N) : res N :=
  match nth_stmt ss k with
  | None => Internal E_INDEX
  | Some s => match cp_addr (s_pkg s) with VPyNone => Internal E_ATTR | a => Ok (v_int a) end
  end.

(* a term of an address expression: a label is its statement's address, a number is signed (F31) *)
Definition offset_arith (op : N) (a b : Z) : res Z :=
  if op =? 43 then Ok (a + b)%Z
  else if op =? 45 then Ok (a - b)%Z
  else if op =? 42 then Ok (a * b)%Z
  else if (b =? 0)%Z then Diag 2 else Ok (Z.quot a b).

(* a term that is itself label arithmetic (an EQU symbol defined by it) is evaluated, not read as 0 (repair F56):
   NumericValue(result, size_hint=4, mode=EXTENDED) of the nested expression, then its signed value *)
Fixpoint term_value (ss : list stmt) (v : value) : res Z :=
  match v with
  | VAddr k => do a <- addr_of ss k; Ok (Z.of_N a)
  | VExpr l op r _ true =>
      do a <- term_value ss l;
      do b <- term_value ss r;
      do z <- offset_arith op a b;
      do n <- as_translation_error (num_of_Z z (Some 4) MExtended);
      Ok (if n_neg n then (- Z.of_N (n_int n))%Z else Z.of_N (n_int n))
  | _ => Ok (if v_negative v then (- Z.of_N (v_int v))%Z else Z.of_N (v_int v))
  end.

Definition calc_offset_z (ss : list stmt) (l : value) (op : N) (r : value) : res Z :=
  do a <- term_value ss l;
  do b <- term_value ss r;
  offset_arith op a b.

Definition calc_offset (ss : list stmt) (l : value) (op : N) (r : value) : res value :=
  do z <- calc_offset_z ss l op r;
  do n <- as_translation_error (num_of_Z z (Some 4) MExtended);
  Ok (VNum n).

Definition operand_value (o : operand) : value :=
  match o with
  | OPseudo _ v | ORelative v | OExtIdx _ v _ _ | OImmediate v | OUnknown v | ODirect v | OExtended v => v
  | OIndexed _ _ _ => VLR [] [] MNone
  | OSpecial _ | OInherent => VNone
  end.

Definition is_relative_op (o : operand) : bool := match o with ORelative _ => true | _ => false end.
Definition is_indexed_op (o : operand) : bool := match o with OExtIdx _ _ _ _ | OIndexed _ _ _ => true | _ => false end.

Definition with_add (s : stmt) (a : value) : stmt :=
  let p := s_pkg s in
  set_pkg s {| cp_op := cp_op p; cp_addr := cp_addr p; cp_post := cp_post p; cp_add := a; cp_size := cp_size p;
               cp_needs := cp_needs p; cp_choices := cp_choices p; cp_max := cp_max p |} (s_fixed s) (s_hint s).

(* Statement.fix_addresses(statements, this_index) *)
Definition fix_stmt (ss : list stmt) (this : N) (s : stmt) : res stmt :=
  let p := s_pkg s in
  let sizeof := fun x => cp_size (s_pkg x) in
  if is_relative_op (s_operand s) then
    let short := Tables.is_short_branch (s_instr s) in
    let base := if short then 257 else 65537 in
    let hint := if short then 2 else 4 in
    let target := v_int (cp_add p) in
    if target <=? this then
      let len := 1 + sum_range sizeof ss (N.to_nat target) (N.to_nat (this + 1 - target)) in
      if short && (129 <? len) then Diag 2
      else do n <- as_translation_error (num_of_Z (Z.of_N base - Z.of_N len)%Z (Some hint) MNone); Ok (with_add s (VNum n))
    else
      let len := sum_range sizeof ss (N.to_nat (this + 1)) (N.to_nat (target - (this + 1))) in
      if short && (127 <? len) then Diag 2
      else do n <- as_translation_error (num_of_Z (Z.of_N len) (Some hint) MNone); Ok (with_add s (VNum n))
  else
    let ov := operand_value (s_operand s) in
    match ov with
    | VPyNone => Internal E_ATTR
    | _ =>
      let digits := match s_operand s with
                    | OImmediate _ => imm_digits (s_instr s)
                    | OPseudo _ _ => if Tables.is_multi_byte (s_instr s) then 2 else 4
                    | ODirect _ => 2
                    | _ => 4 end in
      let signed := match s_operand s with ODirect _ => false | _ => true end in
      do s1 <- (match ov with
                | VExpr l op r _ true =>
                    do a <- calc_offset ss l op r; do a' <- as_translation_error (fit_value a digits signed); Ok (with_add s a')
                | VAddr k => match nth_stmt ss k with
                             | Some t => match cp_addr (s_pkg t) with
                                         | VPyNone => Internal E_ATTR
                                         | av => do a' <- as_translation_error (fit_value av digits true); Ok (with_add s a')
                                         end
                             | None => Internal E_INDEX
                             end
                | _ => Ok s
                end);
      if addr_offset p then
        do tv <- (match operand_left (s_operand s) with
                  | Some (LVal (VExpr l op r _ true)) => calc_offset ss l op r
                  | _ => match nth_stmt ss (v_int (cp_add (s_pkg s1))) with
                         | Some t => match cp_addr (s_pkg t) with VPyNone => Internal E_ATTR | av => Ok av end
                         | None => Internal E_INDEX
                         end
                  end);
        do a' <- as_translation_error (fit_value tv 4 true);
        Ok (with_add s1 a')
      else if cp_needs p then
        do target <- (match operand_left (s_operand s) with
                      | Some (LVal (VExpr l op r _ true)) =>
                          do v <- calc_offset ss l op r;
                          Ok (if v_negative v then (- Z.of_N (v_int v))%Z else Z.of_N (v_int v))
                      | _ => do a <- addr_of ss (v_int (cp_add (s_pkg s1))); Ok (Z.of_N a)
                      end);
        do start <- addr_of ss this;
        let jump := (((target - Z.of_N start - Z.of_N (cp_size p)) + 32768) mod 65536 - 32768)%Z in
        do n <- as_translation_error (num_of_Z jump (Some (s_hint s)) MNone);
        Ok (with_add s1 (VNum n))
      else Ok s1
    end.

Fixpoint fix_all (all : list stmt) (ss : list stmt) (k : N) : res (list stmt) :=
  match ss with
  | [] => Ok []
  | s :: r => do s' <- fix_stmt all k s; do rest <- fix_all all r (k + 1); Ok (s' :: rest)
  end.

(* ---------- results ---------- *)
Definition stmt_bytes (s : stmt) : res (list N) :=
  do a <- emit_value (cp_op (s_pkg s));
  do b <- emit_value (cp_post (s_pkg s));
  do c <- emit_value (cp_add (s_pkg s));
  Ok (a ++ b ++ c).

Record sres := { r_addr : N; r_size : N; r_bytes : list N; r_label : text; r_mn : text }.
Record result := { r_image : list N; r_stmts : list sres; r_syms : list (text * list N);
                   r_origin : option value; r_name : option text }.

Definition stmt_result (s : stmt) : res sres :=
  do b <- stmt_bytes s;
  Ok {| r_addr := v_int (cp_addr (s_pkg s)); r_size := cp_size (s_pkg s); r_bytes := b;
        r_label := s_label s; r_mn := mnem (s_instr s) |}.

Definition backpatch (ss : list stmt) (tb : symtab) : res symtab :=
  map_res (fun kv => match snd kv with
                     | VAddr k => match nth_stmt ss k with
                                  | Some t => Ok (fst kv, cp_addr (s_pkg t))
                                  | None => Internal E_INDEX
                                  end
                     | VExpr l op r _ true =>       (* an EQU defined by label arithmetic (repairs F46, F47, F52) *)
                         do v <- calc_offset ss l op r; do v' <- as_translation_error (fit_value v 4 true); Ok (fst kv, v')
                     | v => Ok (fst kv, v)
                     end) tb.

Definition sym_line (kv : text * value) : res (text * list N) :=
  match snd kv with
  | VPyNone => Internal E_ATTR
  | v => match v_hex v with Some h => Ok (fst kv, h) | None => Unmodelled end
  end.

(* the origin: the last ORG before the first statement that has a size (repair F45) *)
Fixpoint origin_of (ss : list stmt) (cur : option value) : option value :=
  match ss with
  | [] => cur
  | s :: r => let cur' := if Tables.is_origin (s_instr s) then Some (cp_addr (s_pkg s)) else cur in
              if 0 <? cp_size (s_pkg s) then cur' else origin_of r cur'
  end.

Definition last_where (f : stmt -> bool) (ss : list stmt) : option stmt :=
  fold_left (fun acc s => if f s then Some s else acc) ss None.

(* Program.translate_statements after parsing *)
Definition translate_program (fm : filemap) (parsed : list stmt) : res (list stmt * symtab) :=
  do ss0 <- expand (S (length fm)) fm [] parsed;
  do tb0 <- save_symbols ss0 0 [];
  do tb <- resolve_defined ss0 tb0;
  do ss1 <- map_res (resolve_stmt tb) ss0;
  do ss2 <- map_res translate_stmt ss1;
  do ss3 <- size_loop (S (length ss2)) ss2;
  do ss4 <- assign_addresses ss3 0 false;
  do ss5 <- fix_all ss4 ss4 0;
  do tb' <- backpatch ss5 tb;
  Ok (ss5, tb').

Definition assemble (fm : filemap) (lines : list text) : res result :=
  do parsed <- parse_lines lines;
  do r <- translate_program fm parsed;
  let '(ss, tb) := r in
  do rs <- map_res stmt_result ss;
  do syms <- map_res sym_line tb;
  Ok {| r_image := concat (map r_bytes rs); r_stmts := rs; r_syms := syms;
        r_origin := origin_of ss None;
        r_name := option_map s_opstr (last_where (fun s => Tables.is_name (s_instr s)) ss) |}.
