(* MDisk.v — executable model of cocoasm/virtualfiles/disk.py (DiskFile writer and reader).
   Writer: the tool always builds an image from a blank one by successive add_file calls, so the
   model state is the HISTORY: the list of (file, granule chain) stored so far; the image is a
   function of it (disk_of_state / image_of).  Reader: works on the sliced image (SpecDisk.slice).
   Hand-written; tied to the code by the correspondence check (harness/disk.py), byte-for-byte. *)
From V Require Import Base.
From V.spec Require Import SpecDisk.
From V.gen Require Tables.
Local Open Scope N_scope.

(* ---------- what is stored for a file ---------- *)

Definition upper (b : byte) : byte := if (97 <=? b) && (b <=? 122) then b - 32 else b.
Definition fix_nul (b : byte) : byte := if b =? 0 then 32 else b.

(* s[:k].ljust(k, " ") *)
Fixpoint padk (k : nat) (l : list byte) : list byte :=
  match k with
  | O => []
  | S k' => match l with [] => 32 :: padk k' [] | c :: r => c :: padk k' r end
  end.

Definition dir_name (f : dfile) : list byte := map (fun b => fix_nul (upper b)) (padk 8 (d_name f)).
Definition dir_ext (f : dfile) : list byte := map (fun b => fix_nul (upper b)) (padk 3 (d_ext f)).

Definition dlen (f : dfile) : N := N.of_nat (length (d_data f)).

(* preamble ++ data ++ postamble *)
Definition stream (f : dfile) : list byte :=
  match kind_of (d_type f) (d_ascii f) with
  | ML => [0; hi (dlen f); lo (dlen f); hi (d_load f); lo (d_load f)] ++ d_data f
          ++ [255; 0; 0; hi (d_exec f); lo (d_exec f)]
  | BASIC => [255; hi (dlen f); lo (dlen f)] ++ d_data f
  | ASCII => d_data f
  end.

Definition slen (f : dfile) : nat := length (stream f).

(* calculate_granules_needed *)
Definition needed (f : dfile) : nat := (slen f / GR + 1)%nat.
(* calculate_last_granules_sectors_used / calculate_last_sector_bytes_used *)
Definition last_rem (f : dfile) : nat := (slen f - (needed f - 1) * GR)%nat.
Definition last_sectors (f : dfile) : N := N.of_nat (last_rem f / 256 + 1).
Definition last_bytes (f : dfile) : N := N.of_nat (last_rem f - (last_rem f / 256) * 256).

Definition dir_entry (f : dfile) (first : N) : list byte :=
  dir_name f ++ dir_ext f ++ [d_type f; d_ascii f; first; hi (last_bytes f); lo (last_bytes f)] ++ repeat 0 16.

(* ---------- writer ---------- *)

Definition state := list (dfile * list N).
Definition used (st : state) : list N := concat (map snd st).
Definition in_use (u : list N) (g : N) : bool := existsb (N.eqb g) u.

(* find_empty_granule: first granule of the fill order whose table entry is free.
   Diag 11 = "no free granules available", Diag 12 = "Invalid granule number" *)
Fixpoint find_free (order : list N) (u : list N) : res N :=
  match order with
  | [] => Diag 11
  | g :: r => if 67 <? g then Diag 12 else if in_use u g then find_free r u else Ok g
  end.

(* the allocation loop of add_file (each granule found is provisionally marked $99 = in use) *)
Fixpoint alloc (order : list N) (u : list N) (n : nat) : res (list N) :=
  match n with
  | O => Ok []
  | S n' => do g <- find_free order u; do r <- alloc order (g :: u) n'; Ok (g :: r)
  end.

(* Diag 13 = "granule_fill_order does not contain 68 granules", Diag 14 = "No free directory entry" *)
Definition add_file (order : list N) (st : state) (f : dfile) : res state :=
  if 65535 <? N.of_nat (length (d_data f)) then Unmodelled     (* NumericValue(len) > 65535 *)
  else if Nat.ltb (length order) 68 then Diag 13
  else do gs <- alloc order (used st) (needed f);
       if Tables.dir_slots_searched <=? N.of_nat (length st) then Diag 14 else Ok (st ++ [(f, gs)]).

Fixpoint add_files (order : list N) (st : state) (fs : list dfile) : res state :=
  match fs with
  | [] => Ok st
  | f :: r => do st' <- add_file order st f; add_files order st' r
  end.

Definition default_order : list N := Tables.granule_fill_order.

(* the layout constants of disk.py agree with the half-track layout of SpecDisk (checked on regeneration) *)
Definition layout_constants_ok : bool :=
  (Tables.fat_offset =? 34 * 2304 + 256) && (Tables.dir_offset =? 34 * 2304 + 512) &&
  (Tables.half_track_len =? 2304) && (Tables.bytes_per_sector =? 256) && (Tables.total_granules =? 68) &&
  (Tables.preamble_len =? 5) && (Tables.postamble_len =? 5) && (Tables.image_size =? IMAGE_SIZE).

(* ---------- the image as a function of the history ---------- *)

Fixpoint chain_entry (gs : list N) (s : N) (g : N) : option byte :=
  match gs with
  | [] => None
  | x :: r => if x =? g then Some (match r with [] => 192 + s | y :: _ => y end) else chain_entry r s g
  end.

Fixpoint fat_entry (st : state) (g : N) : byte :=
  match st with
  | [] => 255
  | (f, gs) :: r => match chain_entry gs (last_sectors f) g with Some e => e | None => fat_entry r g end
  end.

Fixpoint index_of (g : N) (gs : list N) (k : nat) : option nat :=
  match gs with
  | [] => None
  | x :: r => if x =? g then Some k else index_of g r (S k)
  end.

(* k-th 2304-byte piece of the stream, the rest of the granule keeps its formatted $FF *)
Definition chunk (k : nat) (s : list byte) : list byte :=
  let c := firstn GR (skipn (k * GR) s) in c ++ repeat 255 (GR - length c).

Fixpoint gran_content (st : state) (g : N) : list byte :=
  match st with
  | [] => repeat 255 GR
  | (f, gs) :: r => match index_of g gs 0 with Some k => chunk k (stream f) | None => gran_content r g end
  end.

Definition first_gran (gs : list N) : N := hd 0 gs.

Definition disk_of_state (st : state) : disk :=
  {| fat := map (fun g => fat_entry st (N.of_nat g)) (seq 0 68)
            ++ repeat (match st with [] => 255 | _ => 0 end) 188;
     dir := map (fun fg => dir_entry (fst fg) (first_gran (snd fg))) st
            ++ repeat (repeat 255 32) (72 - length st);
     gran := map (fun g => gran_content st (N.of_nat g)) (seq 0 68);
     t17a := repeat 255 256;
     t17z := repeat 255 1792 |}.

Definition image_of (st : state) : list byte := render (disk_of_state st).

(* what list_files is expected to return for a stored file *)
Definition norm (f : dfile) : dfile :=
  let ml := match kind_of (d_type f) (d_ascii f) with ML => true | _ => false end in
  {| d_name := remove_spaces (dir_name f); d_ext := dir_ext f; d_type := d_type f; d_ascii := d_ascii f;
     d_load := if ml then d_load f else 0; d_exec := if ml then d_exec f else 0; d_data := d_data f |}.

(* ---------- reader: DiskFile.list_files / read_data / calculate_file_length ---------- *)

(* read n bytes from granule g starting at offset skip, following table links (read_data).
   Diag 1 = "Unable to read data - insufficient bytes in buffer" (a link leaving the image) *)
Definition read_chain_step (rec : N -> nat -> nat -> res (list byte)) (d : disk) (g : N) (skip n : nat)
  : res (list byte) :=
  if 67 <? g then (if Nat.eqb n 0 then Ok [] else Diag 1)
  else
    let room := (GR - skip)%nat in
    if Nat.ltb room n then
      do rest <- rec (fat_at d g) 0%nat (n - room)%nat;
      Ok (firstn room (skipn skip (gran_at d g)) ++ rest)
    else Ok (firstn n (skipn skip (gran_at d g))).
Fixpoint read_chain (fuel : nat) (d : disk) (g : N) (skip n : nat) : res (list byte) :=
  match fuel with
  | O => OutOfFuel
  | S f => read_chain_step (read_chain f d) d g skip n
  end.

(* calculate_file_length; an entry >= $C0 ends the chain, its low 5 bits are the sector count *)
Fixpoint calc_len (fuel : nat) (d : disk) (g : N) (lastbytes : N) : res N :=
  match fuel with
  | O => OutOfFuel
  | S f =>
      let e := fat_at d g in
      if 192 <=? e then
        (if e mod 32 =? 0 then Unmodelled              (* negative partial length in the code *)
         else Ok ((e mod 32 - 1) * 256 + lastbytes))
      else do r <- calc_len f d e lastbytes; Ok (2304 + r)
  end.

Definition ascii_only (l : list byte) : bool := forallb (fun b => b <? 128) l.

(* Diag 2 = preamble errors, Diag 3 = postamble errors *)
Definition read_entry (d : disk) (e : list byte) : res dfile :=
  let de := decode_entry e in
  if negb (ascii_only (e_name de) && ascii_only (e_ext de)) then Unmodelled else
  let g := e_first de in
  let mk ld ex data := {| d_name := remove_spaces (e_name de); d_ext := e_ext de; d_type := e_type de;
                          d_ascii := e_ascii de; d_load := ld; d_exec := ex; d_data := data |} in
  match kind_of (e_type de) (e_ascii de) with
  | ML =>
      if 67 <? g then Diag 2 else
      match gran_at d g with
      | z :: lh :: ll :: ah :: al :: _ =>
          if negb (z =? 0) then Diag 2 else
          let n := N.to_nat (word lh ll) in
          do bs <- read_chain 70 d g 5 (n + 5);
          match skipn n bs with
          | p0 :: p1 :: p2 :: eh :: el :: _ =>
              if (p0 =? 255) && (p1 =? 0) && (p2 =? 0) then Ok (mk (word ah al) (word eh el) (firstn n bs))
              else Diag 3
          | _ => Diag 3
          end
      | _ => Diag 2
      end
  | BASIC =>
      if 67 <? g then Diag 2 else
      match gran_at d g with
      | z :: lh :: ll :: _ =>
          if negb (z =? 255) then Diag 2 else
          do bs <- read_chain 70 d g 3 (N.to_nat (word lh ll)); Ok (mk 0 0 bs)
      | _ => Diag 2
      end
  | ASCII =>
      do n <- calc_len 257 d g (e_lastbytes de);
      do bs <- read_chain 70 d g 0 (N.to_nat n); Ok (mk 0 0 bs)
  end.

Fixpoint read_entries (d : disk) (es : list (list byte)) : res (list dfile) :=
  match es with
  | [] => Ok []
  | e :: r => if entry_used e then do f <- read_entry d e; do fs <- read_entries d r; Ok (f :: fs)
              else read_entries d r
  end.

Definition list_files_disk (d : disk) : res (list dfile) := read_entries d (dir d).

(* Diag 4 = "Disk image size is not 161,280 bytes long" *)
Definition list_files (img : list byte) : res (list dfile) :=
  if N.of_nat (length img) <? IMAGE_SIZE then Diag 4
  else if IMAGE_SIZE <? N.of_nat (length img) then Unmodelled
  else list_files_disk (slice img).
