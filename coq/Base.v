(* Base.v — shared definitions: bytes, outcomes, big-endian split, small list utilities.
   Stdlib only.  No proofs about the tool here (only generic list/arith lemmas). *)
From Coq Require Export List NArith ZArith Arith PeanoNat Lia Bool.
Export ListNotations.
Local Open Scope N_scope.

Definition byte := N.

(* Outcome of every model entry point.  Diag = one of the tool's own diagnostics
   (ParseError / TranslationError / VirtualFileValidationError / FileExistsError),
   Internal = any other Python exception the model predicts, OutOfFuel = the model's
   rendering of non-termination, Unmodelled = input region the model does not describe. *)
Inductive res (A : Type) : Type :=
| Ok (a : A)
| Diag (code : N)
| Internal (code : N)
| OutOfFuel
| Unmodelled.
Arguments Ok {A} a.
Arguments Diag {A} code.
Arguments Internal {A} code.
Arguments OutOfFuel {A}.
Arguments Unmodelled {A}.

Definition bind {A B} (r : res A) (f : A -> res B) : res B :=
  match r with
  | Ok a => f a
  | Diag c => Diag c
  | Internal c => Internal c
  | OutOfFuel => OutOfFuel
  | Unmodelled => Unmodelled
  end.
Notation "'do' x <- r ; k" := (bind r (fun x => k)) (at level 200, x pattern, r at level 100, k at level 200).

Fixpoint sumN (l : list N) : N := match l with [] => 0 | x :: r => x + sumN r end.
Definition hi (w : N) : byte := (w / 256) mod 256.
Definition lo (w : N) : byte := w mod 256.
Definition word (h l : byte) : N := h * 256 + l.

Definition is_byte (b : N) : bool := b <? 256.
Definition all_bytes (l : list N) : bool := forallb is_byte l.

Fixpoint starts_with (p bs : list N) : bool :=
  match p, bs with
  | [], _ => true
  | x :: p', y :: bs' => (x =? y) && starts_with p' bs'
  | _ :: _, [] => false
  end.

(* first suffix of bs that begins with p (p non-empty in every use) *)
Fixpoint seek (p bs : list N) : option (list N) :=
  match bs with
  | [] => None
  | _ :: r => if starts_with p bs then Some bs else seek p r
  end.

Fixpoint list_eqb (a b : list N) : bool :=
  match a, b with
  | [], [] => true
  | x :: a', y :: b' => (x =? y) && list_eqb a' b'
  | _, _ => false
  end.

Lemma list_eqb_eq a b : list_eqb a b = true <-> a = b.
Proof.
  revert b; induction a as [|x a IH]; intros [|y b]; cbn; split; intros H; try congruence; try reflexivity.
  - apply andb_true_iff in H as [H1 H2]. apply N.eqb_eq in H1. apply IH in H2. congruence.
  - inversion H; subst. rewrite N.eqb_refl. cbn. now apply IH.
Qed.

Lemma hi_lo_word w : w < 65536 -> word (hi w) (lo w) = w.
Proof.
  intros H. unfold word, hi, lo.
  rewrite (N.mod_small (w / 256) 256).
  - rewrite N.mul_comm. symmetry. apply N.div_mod. discriminate.
  - apply N.div_lt_upper_bound; [discriminate|]. exact H.
Qed.

Lemma hi_lt w : hi w < 256. Proof. unfold hi. apply N.mod_lt. discriminate. Qed.
Lemma lo_lt w : lo w < 256. Proof. unfold lo. apply N.mod_lt. discriminate. Qed.

Lemma starts_with_app p r : starts_with p (p ++ r) = true.
Proof. induction p as [|x p IH]; cbn; [reflexivity|]. now rewrite N.eqb_refl, IH. Qed.

Lemma starts_with_spec p bs : starts_with p bs = true <-> exists r, bs = p ++ r.
Proof.
  revert bs; induction p as [|x p IH]; intros bs; cbn.
  - split; [intros _; now exists bs | reflexivity].
  - destruct bs as [|y bs]; [split; [discriminate | intros [r Hr]; discriminate]|].
    rewrite andb_true_iff, N.eqb_eq, IH. split.
    + intros [-> [r ->]]. now exists r.
    + intros [r Hr]. inversion Hr; subst. split; [reflexivity | now exists r].
Qed.
