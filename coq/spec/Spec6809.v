(* Spec6809.v — executable MC6809 instruction decoder, written from the Motorola MC6809
   datasheet / programming-manual opcode map (pages 0, $10, $11) and the indexed-addressing
   post-byte table.  It is NOT derived from any assembler's tables: it is the independent
   specification against which an assembler's output bytes are judged.  Stdlib only.

   Conventions
   - a mnemonic is the list of its upper-case ASCII codes ([mn "LDA" = [76;68;65]]);
   - canonical spelling per alias pair (the first name in the datasheet's map):
       ASL (not LSL), ASLA (not LSLA), ASLB (not LSLB), BCC (not BHS), BCS (not BLO),
       LBCC (not LBHS), LBCS (not LBLO);  [canon] maps the second spelling to the first;
   - only documented opcodes are defined; $10/$11 are prefixes, not instructions, a prefix
     followed by an opcode not on that page (including a second prefix) is rejected;
   - every consumed byte must be < 256, otherwise [decode] gives None;
   - signed fields (5/8/16-bit offsets, branch displacements) are two's complement into Z. *)
From Coq Require Import List NArith ZArith Bool Lia.
From Coq Require String Ascii.
Import ListNotations String.StringSyntax.
Local Open Scope string_scope.
Local Open Scope N_scope.

Definition mnem := list N.
Definition mn (s : String.string) : mnem := map Ascii.N_of_ascii (String.list_ascii_of_string s).

Fixpoint mnem_eqb (a b : mnem) : bool :=
  match a, b with
  | [], [] => true
  | x :: a', y :: b' => (x =? y) && mnem_eqb a' b'
  | _, _ => false
  end.

Inductive reg := RX | RY | RU | RS.
Inductive acc := AccA | AccB | AccD.

Inductive idx :=
| IOff5  (r : reg) (off : Z)                   (* 0RRnnnnn          n,R   -16..15, never indirect *)
| IZero  (r : reg) (ind : bool)                (* 1RRi0100          ,R *)
| IOff8  (r : reg) (off : Z) (ind : bool)      (* 1RRi1000 + 1 byte n,R   -128..127 *)
| IOff16 (r : reg) (off : Z) (ind : bool)      (* 1RRi1001 + 2 byte n,R   -32768..32767 *)
| IAcc   (a : acc) (r : reg) (ind : bool)      (* 1RRi0110 A,R  1RRi0101 B,R  1RRi1011 D,R *)
| IInc1  (r : reg)                             (* 1RR00000          ,R+   not indirect *)
| IInc2  (r : reg) (ind : bool)                (* 1RRi0001          ,R++ *)
| IDec1  (r : reg)                             (* 1RR00010          ,-R   not indirect *)
| IDec2  (r : reg) (ind : bool)                (* 1RRi0011          ,--R *)
| IPc8   (off : Z) (ind : bool)                (* 1xxi1100 + 1 byte n,PCR *)
| IPc16  (off : Z) (ind : bool)                (* 1xxi1101 + 2 byte n,PCR *)
| IExtInd (addr : N).                          (* 10011111 + 2 byte [addr] *)

Inductive operand :=
| OInh
| OImm8 (v : N) | OImm16 (v : N)
| ODir (a : N) | OExt (a : N)
| OIdx (i : idx)
| ORel8 (d : Z) | ORel16 (d : Z)
| ORegList (mask : N)                          (* PSHS/PULS/PSHU/PULU post-byte *)
| ORegPair (src dst : N).                      (* TFR/EXG: high nibble = source, low = destination *)

Record insn := { i_mnem : mnem; i_op : operand }.

Inductive amode := AInh | AImm8 | AImm16 | ADir | AIdx | AExt | ARel8 | ARel16 | ARegList | ARegPair.

(* ---------- the opcode map ---------- *)

Fixpoint assoc {A} (k : N) (l : list (N * A)) : option A :=
  match l with [] => None | (k', v) :: r => if k =? k' then Some v else assoc k r end.

(* rows $0x (direct), $6x (indexed), $7x (extended); with suffix A/B rows $4x/$5x (inherent, no JMP) *)
Definition memops : list (N * mnem) :=
  [(0, mn "NEG"); (3, mn "COM"); (4, mn "LSR"); (6, mn "ROR"); (7, mn "ASR"); (8, mn "ASL"); (9, mn "ROL");
   (10, mn "DEC"); (12, mn "INC"); (13, mn "TST"); (14, mn "JMP"); (15, mn "CLR")].
(* row $2x; with prefix L on page $10 ($21..$2F) *)
Definition branches : list (N * mnem) :=
  [(0, mn "BRA"); (1, mn "BRN"); (2, mn "BHI"); (3, mn "BLS"); (4, mn "BCC"); (5, mn "BCS"); (6, mn "BNE");
   (7, mn "BEQ"); (8, mn "BVC"); (9, mn "BVS"); (10, mn "BPL"); (11, mn "BMI"); (12, mn "BGE"); (13, mn "BLT");
   (14, mn "BGT"); (15, mn "BLE")].
(* rows $8x..$Bx and $Cx..$Fx (immediate, direct, indexed, extended), by low nibble *)
Definition accA : list (N * mnem) :=
  [(0, mn "SUBA"); (1, mn "CMPA"); (2, mn "SBCA"); (3, mn "SUBD"); (4, mn "ANDA"); (5, mn "BITA"); (6, mn "LDA");
   (7, mn "STA"); (8, mn "EORA"); (9, mn "ADCA"); (10, mn "ORA"); (11, mn "ADDA"); (12, mn "CMPX"); (13, mn "JSR");
   (14, mn "LDX"); (15, mn "STX")].
Definition accB : list (N * mnem) :=
  [(0, mn "SUBB"); (1, mn "CMPB"); (2, mn "SBCB"); (3, mn "ADDD"); (4, mn "ANDB"); (5, mn "BITB"); (6, mn "LDB");
   (7, mn "STB"); (8, mn "EORB"); (9, mn "ADCB"); (10, mn "ORB"); (11, mn "ADDB"); (12, mn "LDD"); (13, mn "STD");
   (14, mn "LDU"); (15, mn "STU")].
Definition row1 : list (N * (mnem * amode)) :=   (* $10, $11 are the page prefixes *)
  [(2, (mn "NOP", AInh)); (3, (mn "SYNC", AInh)); (6, (mn "LBRA", ARel16)); (7, (mn "LBSR", ARel16));
   (9, (mn "DAA", AInh)); (10, (mn "ORCC", AImm8)); (12, (mn "ANDCC", AImm8)); (13, (mn "SEX", AInh));
   (14, (mn "EXG", ARegPair)); (15, (mn "TFR", ARegPair))].
Definition row3 : list (N * (mnem * amode)) :=
  [(0, (mn "LEAX", AIdx)); (1, (mn "LEAY", AIdx)); (2, (mn "LEAS", AIdx)); (3, (mn "LEAU", AIdx));
   (4, (mn "PSHS", ARegList)); (5, (mn "PULS", ARegList)); (6, (mn "PSHU", ARegList)); (7, (mn "PULU", ARegList));
   (9, (mn "RTS", AInh)); (10, (mn "ABX", AInh)); (11, (mn "RTI", AInh)); (12, (mn "CWAI", AImm8));
   (13, (mn "MUL", AInh)); (15, (mn "SWI", AInh))].
(* page $10: rows $8x..$Bx and $Cx..$Fx;  page $11: rows $8x..$Bx *)
Definition p2A : list (N * mnem) := [(3, mn "CMPD"); (12, mn "CMPY"); (14, mn "LDY"); (15, mn "STY")].
Definition p2B : list (N * mnem) := [(14, mn "LDS"); (15, mn "STS")].
Definition p3A : list (N * mnem) := [(3, mn "CMPU"); (12, mn "CMPS")].

(* In rows $8x..$Fx the high nibble gives the mode (imm, dir, idx, ext).  In the immediate rows
   ($8x, $Cx) the columns 7, D, F (stores, JSR) do not exist and the columns 3, C, E hold the
   16-bit registers (SUBD/ADDD/CMPD/CMPU, CMPX/LDD/CMPY/CMPS, LDX/LDU/LDY/LDS): 16-bit immediate.
   (Cross-checked against the explicit list of 16-bit mnemonics in [imm16_by_name] below.) *)
Definition col_mode (hi lo : N) : option amode :=
  match hi mod 4 with
  | 0 => if (lo =? 7) || (lo =? 13) || (lo =? 15) then None
         else Some (if (lo =? 3) || (lo =? 12) || (lo =? 14) then AImm16 else AImm8)
  | 1 => Some ADir
  | 2 => Some AIdx
  | _ => Some AExt
  end.
Definition with_mode (m : amode) (o : option mnem) : option (mnem * amode) := option_map (fun n => (n, m)) o.
Definition grp_entry (tab : list (N * mnem)) (hi lo : N) : option (mnem * amode) :=
  match assoc lo tab, col_mode hi lo with Some n, Some m => Some (n, m) | _, _ => None end.

Definition page0 (op : N) : option (mnem * amode) :=
  let hi := op / 16 in let lo := op mod 16 in
  match hi with
  | 0 => with_mode ADir (assoc lo memops)
  | 1 => assoc lo row1
  | 2 => with_mode ARel8 (assoc lo branches)
  | 3 => assoc lo row3
  | 4 => if lo =? 14 then None else with_mode AInh (option_map (fun n => n ++ [65])%list (assoc lo memops))
  | 5 => if lo =? 14 then None else with_mode AInh (option_map (fun n => n ++ [66])%list (assoc lo memops))
  | 6 => with_mode AIdx (assoc lo memops)
  | 7 => with_mode AExt (assoc lo memops)
  | 8 | 9 | 10 | 11 => if op =? 141 then Some (mn "BSR", ARel8) else grp_entry accA hi lo
  | 12 | 13 | 14 | 15 => grp_entry accB hi lo
  | _ => None
  end.
Definition page2 (op : N) : option (mnem * amode) :=
  let hi := op / 16 in let lo := op mod 16 in
  match hi with
  | 2 => if lo =? 0 then None else with_mode ARel16 (option_map (fun n => 76 :: n) (assoc lo branches))
  | 3 => if lo =? 15 then Some (mn "SWI2", AInh) else None
  | 8 | 9 | 10 | 11 => grp_entry p2A hi lo
  | 12 | 13 | 14 | 15 => grp_entry p2B hi lo
  | _ => None
  end.
Definition page3 (op : N) : option (mnem * amode) :=
  let hi := op / 16 in let lo := op mod 16 in
  match hi with
  | 3 => if lo =? 15 then Some (mn "SWI3", AInh) else None
  | 8 | 9 | 10 | 11 => grp_entry p3A hi lo
  | _ => None
  end.

(* page = 0 (no prefix), 16 (prefix $10) or 17 (prefix $11) *)
Definition opcode_entry (page : N) (op : N) : option (mnem * amode) :=
  if 256 <=? op then None else
  match page with 0 => page0 op | 16 => page2 op | 17 => page3 op | _ => None end.

Definition aliases : list (mnem * mnem) :=     (* (alias, canonical) *)
  [(mn "LSL", mn "ASL"); (mn "LSLA", mn "ASLA"); (mn "LSLB", mn "ASLB"); (mn "BHS", mn "BCC");
   (mn "BLO", mn "BCS"); (mn "LBHS", mn "LBCC"); (mn "LBLO", mn "LBCS")].
Definition canon (m : mnem) : mnem :=
  match find (fun p => mnem_eqb (fst p) m) aliases with Some (_, c) => c | None => m end.

Definition byte_values : list N := map N.of_nat (seq 0 256).
Definition defined (po : N * N) : bool :=
  match opcode_entry (fst po) (snd po) with Some _ => true | None => false end.
Definition all_opcodes : list (N * N) := filter defined (list_prod [0; 16; 17] byte_values).

(* ---------- operand decoding ---------- *)

Definition sext (bits : N) (v : N) : Z :=
  if v <? 2 ^ (bits - 1) then Z.of_N v else (Z.of_N v - Z.of_N (2 ^ bits))%Z.

Definition get1 (bs : list N) : option (N * list N) :=
  match bs with b :: r => if b <? 256 then Some (b, r) else None | [] => None end.
Definition get2 (bs : list N) : option (N * list N) :=   (* big-endian 16-bit *)
  match get1 bs with
  | Some (h, r) => match get1 r with Some (l, r') => Some (h * 256 + l, r') | None => None end
  | None => None
  end.
Definition omap {A B} (f : A -> B) (o : option (A * list N)) : option (B * list N) :=
  match o with Some (a, r) => Some (f a, r) | None => None end.

Definition reg_of (c : N) : reg := match c with 0 => RX | 1 => RY | 2 => RU | _ => RS end.

(* Indexed post-byte, MC6809 datasheet "Indexed addressing post-byte register bit assignments".
   Rejected as illegal: low nibbles 0111, 1010, 1110 (any i), 1111 except exactly $9F.
   The manual documents extended indirect only as 10011111; the variants $BF/$DF/$FF (other
   register bits) and the non-indirect 1RR01111 are rejected.  The indirect bit on ,R+ and ,-R
   (1RR10000, 1RR10010) is rejected.  For n,PCR the register bits are "don't care" per the
   manual, so all four settings are accepted. *)
Definition decode_idx (bs : list N) : option (idx * list N) :=
  match get1 bs with
  | None => None
  | Some (pb, r) =>
    let rg := reg_of ((pb / 32) mod 4) in
    if pb <? 128 then Some (IOff5 rg (sext 5 (pb mod 32)), r) else
    let ind := (pb / 16) mod 2 =? 1 in
    match pb mod 16 with
    | 0 => if ind then None else Some (IInc1 rg, r)
    | 1 => Some (IInc2 rg ind, r)
    | 2 => if ind then None else Some (IDec1 rg, r)
    | 3 => Some (IDec2 rg ind, r)
    | 4 => Some (IZero rg ind, r)
    | 5 => Some (IAcc AccB rg ind, r)
    | 6 => Some (IAcc AccA rg ind, r)
    | 8 => omap (fun v => IOff8 rg (sext 8 v) ind) (get1 r)
    | 9 => omap (fun v => IOff16 rg (sext 16 v) ind) (get2 r)
    | 11 => Some (IAcc AccD rg ind, r)
    | 12 => omap (fun v => IPc8 (sext 8 v) ind) (get1 r)
    | 13 => omap (fun v => IPc16 (sext 16 v) ind) (get2 r)
    | 15 => if pb =? 159 then omap IExtInd (get2 r) else None
    | _ => None
    end
  end.

(* TFR/EXG register codes: 0 D, 1 X, 2 Y, 3 U, 4 S, 5 PC (16-bit); 8 A, 9 B, 10 CC, 11 DP (8-bit) *)
Definition reg_code_defined (c : N) : bool := (c <=? 5) || ((8 <=? c) && (c <=? 11)).
Definition reg_code_is16 (c : N) : bool := c <=? 5.
Definition regpair_legal (src dst : N) : bool :=
  reg_code_defined src && reg_code_defined dst && eqb (reg_code_is16 src) (reg_code_is16 dst).

Definition decode_operand (am : amode) (bs : list N) : option (operand * list N) :=
  match am with
  | AInh => Some (OInh, bs)
  | AImm8 => omap OImm8 (get1 bs)
  | AImm16 => omap OImm16 (get2 bs)
  | ADir => omap ODir (get1 bs)
  | AExt => omap OExt (get2 bs)
  | AIdx => omap OIdx (decode_idx bs)
  | ARel8 => omap (fun v => ORel8 (sext 8 v)) (get1 bs)
  | ARel16 => omap (fun v => ORel16 (sext 16 v)) (get2 bs)
  | ARegList => omap ORegList (get1 bs)       (* CC 1, A 2, B 4, DP 8, X 16, Y 32, U/S 64, PC 128 *)
  | ARegPair =>
    match get1 bs with
    | Some (pb, r) => let s := pb / 16 in let d := pb mod 16 in
                      if reg_code_defined s && reg_code_defined d then Some (ORegPair s d, r) else None
    | None => None
    end
  end.

Definition decode_at (page op : N) (bs : list N) : option (insn * list N) :=
  match opcode_entry page op with
  | Some (m, am) => omap (fun o => {| i_mnem := m; i_op := o |}) (decode_operand am bs)
  | None => None
  end.

(* one instruction at the head of bs, and the remaining bytes *)
Definition decode (bs : list N) : option (insn * list N) :=
  match bs with
  | [] => None
  | b :: r =>
    if (b =? 16) || (b =? 17) then
      match r with [] => None | op :: r' => decode_at b op r' end
    else decode_at 0 b r
  end.

(* the addressing mode an operand belongs to *)
Definition operand_amode (o : operand) : amode :=
  match o with
  | OInh => AInh | OImm8 _ => AImm8 | OImm16 _ => AImm16 | ODir _ => ADir | OExt _ => AExt | OIdx _ => AIdx
  | ORel8 _ => ARel8 | ORel16 _ => ARel16 | ORegList _ => ARegList | ORegPair _ _ => ARegPair
  end.

(* ---------- structural facts, for use by downstream proofs ---------- *)

Lemma get1_app bs v r : get1 bs = Some (v, r) -> bs = [v] ++ r /\ v < 256.
Proof.
  destruct bs as [|b t]; cbn; [discriminate|]. destruct (b <? 256) eqn:E; [|discriminate].
  intros H; inversion H; subst. split; [reflexivity | now apply N.ltb_lt].
Qed.
Lemma get2_app bs v r : get2 bs = Some (v, r) -> exists h l, bs = [h; l] ++ r /\ v = h * 256 + l /\ h < 256 /\ l < 256.
Proof.
  unfold get2. destruct (get1 bs) as [[h t]|] eqn:E1; [|discriminate].
  destruct (get1 t) as [[l t']|] eqn:E2; [|discriminate]. intros H; inversion H; subst.
  apply get1_app in E1 as [-> ?], E2 as [-> ?]. now exists h, l.
Qed.
Lemma omap_some {A B} (f : A -> B) o b r : omap f o = Some (b, r) -> exists a, o = Some (a, r) /\ b = f a.
Proof. destruct o as [[a r']|]; cbn; [|discriminate]. intros H; inversion H; subst. now exists a. Qed.

Lemma decode_idx_suffix bs i r : decode_idx bs = Some (i, r) -> exists p, bs = p ++ r /\ (1 <= length p <= 3)%nat.
Proof.
  unfold decode_idx. destruct (get1 bs) as [[pb t]|] eqn:E; [|discriminate].
  apply get1_app in E as [-> _].
  assert (T0 : forall j, Some (j, t) = Some (i, r) -> exists p, [pb] ++ t = p ++ r /\ (1 <= length p <= 3)%nat)
    by (intros j H; inversion H; subst; exists [pb]; cbn; split; [reflexivity|lia]).
  assert (T1 : forall f, omap f (get1 t) = Some (i, r) -> exists p, [pb] ++ t = p ++ r /\ (1 <= length p <= 3)%nat).
  { intros f H. apply omap_some in H as (a & H & _). apply get1_app in H as [-> _]. exists [pb; a]. cbn; split; [reflexivity|lia]. }
  assert (T2 : forall f, omap f (get2 t) = Some (i, r) -> exists p, [pb] ++ t = p ++ r /\ (1 <= length p <= 3)%nat).
  { intros f H. apply omap_some in H as (a & H & _). apply get2_app in H as (h & l & -> & _). exists [pb; h; l]. cbn; split; [reflexivity|lia]. }
  destruct (pb <? 128); [apply T0|].
  cbv zeta. destruct (pb mod 16) as [|q]; [destruct (_ =? 1); [discriminate|apply T0]|].
  repeat match goal with |- context [match ?q with xI _ => _ | xO _ => _ | xH => _ end] => is_var q; destruct q end;
    try discriminate; try apply T0; try apply T1; try apply T2;
    try (destruct (_ =? 1); [discriminate|apply T0]).
  destruct (pb =? 159); [apply T2|discriminate].
Qed.

Lemma decode_operand_suffix am bs o r :
  decode_operand am bs = Some (o, r) -> exists p, bs = p ++ r /\ (length p <= 3)%nat /\ operand_amode o = am.
Proof.
  destruct am; cbn; intros H;
    try (apply omap_some in H as (a & H & ->); first
      [ apply get1_app in H as [-> _]; exists [a]; cbn; repeat split; lia
      | apply get2_app in H as (h & l & -> & _); exists [h; l]; cbn; repeat split; lia ]).
  - inversion H; subst. exists []; cbn; repeat split; lia.
  - apply omap_some in H as (a & H & ->). apply decode_idx_suffix in H as (p & -> & ?). exists p; repeat split; lia.
  - destruct (get1 bs) as [[pb t]|] eqn:E; [|discriminate]. apply get1_app in E as [-> _].
    destruct (_ && _); [|discriminate]. inversion H; subst. exists [pb]; cbn; repeat split; lia.
Qed.

Lemma decode_at_spec page op bs i r :
  decode_at page op bs = Some (i, r) ->
  opcode_entry page op = Some (i_mnem i, operand_amode (i_op i)) /\ exists p, bs = p ++ r /\ (length p <= 3)%nat.
Proof.
  unfold decode_at. destruct (opcode_entry page op) as [[m am]|]; [|discriminate]. intros H.
  apply omap_some in H as (o & H & ->). apply decode_operand_suffix in H as (p & -> & ? & <-). cbn. split; [reflexivity|now exists p].
Qed.

(* decode consumes a non-empty prefix of at most 5 bytes, and its answer is an entry of the opcode map *)
Theorem decode_spec bs i r :
  decode bs = Some (i, r) ->
  exists page op p, bs = p ++ r /\ (1 <= length p <= 5)%nat /\
    opcode_entry page op = Some (i_mnem i, operand_amode (i_op i)) /\
    (page = 0 /\ hd 0 p = op \/ (page = 16 \/ page = 17) /\ exists q, p = page :: op :: q).
Proof.
  destruct bs as [|b t]; cbn; [discriminate|].
  destruct ((b =? 16) || (b =? 17)) eqn:E.
  - destruct t as [|op t']; [discriminate|]. intros H. apply decode_at_spec in H as (He & p & -> & ?).
    exists b, op, (b :: op :: p). split; [reflexivity|]. split; [cbn; lia|]. split; [exact He|].
    right. split; [|now exists p]. apply orb_true_iff in E as [E|E]; apply N.eqb_eq in E; auto.
  - intros H. apply decode_at_spec in H as (He & p & -> & ?).
    exists 0, b, (b :: p). split; [reflexivity|]. split; [cbn; lia|]. split; [exact He|]. now left.
Qed.

(* ---------- sanity ---------- *)

Example mn_LDA : mn "LDA" = [76; 68; 65]. Proof. reflexivity. Qed.

Lemma all_opcodes_complete :
  forallb (fun po => match opcode_entry (fst po) (snd po) with Some _ => true | None => false end) all_opcodes = true.
Proof. vm_compute; reflexivity. Qed.

Lemma all_opcodes_spec page op :
  In (page, op) all_opcodes <-> exists e, opcode_entry page op = Some e.
Proof.
  unfold all_opcodes. rewrite filter_In, in_prod_iff. unfold defined; cbn [fst snd]. split.
  - intros [_ H]. destruct (opcode_entry page op) as [e|]; [now exists e | discriminate].
  - intros [e He]. rewrite He. split; [split|reflexivity].
    + unfold opcode_entry in He. destruct (256 <=? op); [discriminate|].
      destruct page as [|p]; [now left|].
      do 5 (destruct p as [p|p|]; try discriminate); cbn; auto.
    + unfold opcode_entry in He. destruct (256 <=? op) eqn:E; [discriminate|].
      apply N.leb_gt in E. unfold byte_values. apply in_map_iff. exists (N.to_nat op). split.
      * apply N2Nat.id.
      * apply in_seq. lia.
Qed.

Definition count_page (p : N) : nat := length (filter (fun po => fst po =? p) all_opcodes).
Example count_page0 : count_page 0 = 221%nat. Proof. vm_compute; reflexivity. Qed.
Example count_page2 : count_page 16 = 38%nat. Proof. vm_compute; reflexivity. Qed.
Example count_page3 : count_page 17 = 9%nat. Proof. vm_compute; reflexivity. Qed.
Example count_all : length all_opcodes = 268%nat. Proof. vm_compute; reflexivity. Qed.

(* the 16-bit immediates are exactly the datasheet's 16-bit register instructions *)
Definition imm16_by_name : list mnem :=
  [mn "SUBD"; mn "CMPX"; mn "LDX"; mn "ADDD"; mn "LDD"; mn "LDU"; mn "CMPD"; mn "CMPY"; mn "LDY"; mn "LDS";
   mn "CMPU"; mn "CMPS"].
Example imm_widths :
  forallb (fun po => match opcode_entry (fst po) (snd po) with
                     | Some (m, AImm16) => existsb (mnem_eqb m) imm16_by_name
                     | Some (m, AImm8) => negb (existsb (mnem_eqb m) imm16_by_name)
                     | _ => true end) all_opcodes = true.
Proof. vm_compute; reflexivity. Qed.
(* no store / JSR / LEA has an immediate form; every imm16 name has an immediate opcode *)
Example imm16_all_present :
  forallb (fun n => existsb (fun po => match opcode_entry (fst po) (snd po) with
                                       | Some (m, AImm16) => mnem_eqb m n | _ => false end) all_opcodes)
          imm16_by_name = true.
Proof. vm_compute; reflexivity. Qed.
Example canon_idempotent_on_map :
  forallb (fun po => match opcode_entry (fst po) (snd po) with
                     | Some (m, _) => mnem_eqb (canon m) m | None => false end) all_opcodes = true.
Proof. vm_compute; reflexivity. Qed.
Example canon_aliases :
  map canon [mn "LSL"; mn "LSLA"; mn "LSLB"; mn "BHS"; mn "BLO"; mn "LBHS"; mn "LBLO"; mn "LDA"]
  = [mn "ASL"; mn "ASLA"; mn "ASLB"; mn "BCC"; mn "BCS"; mn "LBCC"; mn "LBCS"; mn "LDA"].
Proof. vm_compute; reflexivity. Qed.

Definition I (m : String.string) (o : operand) (rest : list N) : option (insn * list N) :=
  Some ({| i_mnem := mn m; i_op := o |}, rest).

Example ex_lda_imm : decode [0x86; 0xFE] = I "LDA" (OImm8 0xFE) []. Proof. vm_compute; reflexivity. Qed.
Example ex_lda_off5 : decode [0xA6; 0x1E] = I "LDA" (OIdx (IOff5 RX (-2))) []. Proof. vm_compute; reflexivity. Qed.
Example ex_jsr_extind : decode [0xAD; 0x9F; 0xA0; 0x00] = I "JSR" (OIdx (IExtInd 0xA000)) [].
Proof. vm_compute; reflexivity. Qed.
Example ex_leax_acc : decode [0x30; 0x86] = I "LEAX" (OIdx (IAcc AccA RX false)) []. Proof. vm_compute; reflexivity. Qed.
Example ex_ldy_imm : decode [0x10; 0x8E; 0x12; 0x34] = I "LDY" (OImm16 0x1234) []. Proof. vm_compute; reflexivity. Qed.
Example ex_bra : decode [0x20; 0xFE] = I "BRA" (ORel8 (-2)) []. Proof. vm_compute; reflexivity. Qed.
Example ex_lbne : decode [0x10; 0x26; 0xFF; 0x00; 0x12] = I "LBNE" (ORel16 (-256)) [0x12].
Proof. vm_compute; reflexivity. Qed.
Example ex_lbra : decode [0x16; 0x7F; 0xFF] = I "LBRA" (ORel16 32767) []. Proof. vm_compute; reflexivity. Qed.
Example ex_bsr : decode [0x8D; 0x80] = I "BSR" (ORel8 (-128)) []. Proof. vm_compute; reflexivity. Qed.
Example ex_cmps : decode [0x11; 0x8C; 0x80; 0x00] = I "CMPS" (OImm16 0x8000) []. Proof. vm_compute; reflexivity. Qed.
Example ex_swi3 : decode [0x11; 0x3F; 0x01] = I "SWI3" OInh [0x01]. Proof. vm_compute; reflexivity. Qed.
Example ex_sts_ext : decode [0x10; 0xFF; 0x01; 0x02] = I "STS" (OExt 0x0102) []. Proof. vm_compute; reflexivity. Qed.
Example ex_asl_dir : decode [0x08; 0x42] = I "ASL" (ODir 0x42) []. Proof. vm_compute; reflexivity. Qed.
Example ex_clrb : decode [0x5F] = I "CLRB" OInh []. Proof. vm_compute; reflexivity. Qed.
Example ex_pshs : decode [0x34; 0xFF] = I "PSHS" (ORegList 0xFF) []. Proof. vm_compute; reflexivity. Qed.
Example ex_tfr : decode [0x1F; 0x8B] = I "TFR" (ORegPair 8 11) []. Proof. vm_compute; reflexivity. Qed.
Example ex_exg_mixed : decode [0x1E; 0x18] = I "EXG" (ORegPair 1 8) [] /\ regpair_legal 1 8 = false.
Proof. vm_compute; split; reflexivity. Qed.
Example ex_tfr_undefined_reg : decode [0x1F; 0x68] = None. Proof. vm_compute; reflexivity. Qed.
Example ex_idx_off8_ind : decode [0xE7; 0xB8; 0x80] = I "STB" (OIdx (IOff8 RY (-128) true)) [].
Proof. vm_compute; reflexivity. Qed.
Example ex_idx_off16 : decode [0xEC; 0xC9; 0x12; 0x34] = I "LDD" (OIdx (IOff16 RU 0x1234 false)) [].
Proof. vm_compute; reflexivity. Qed.
Example ex_idx_dec2_ind : decode [0x6F; 0xF3] = I "CLR" (OIdx (IDec2 RS true)) []. Proof. vm_compute; reflexivity. Qed.
Example ex_idx_pcr8 : decode [0x31; 0x8C; 0xFD] = I "LEAY" (OIdx (IPc8 (-3) false)) []. Proof. vm_compute; reflexivity. Qed.
Example ex_idx_pcr16_ind : decode [0x6E; 0x9D; 0x80; 0x00] = I "JMP" (OIdx (IPc16 (-32768) true)) [].
Proof. vm_compute; reflexivity. Qed.
Example ex_idx_D : decode [0xA6; 0xAB] = I "LDA" (OIdx (IAcc AccD RY false)) []. Proof. vm_compute; reflexivity. Qed.
(* illegal post-bytes, undefined opcodes, missing bytes *)
Example ex_bad_inc1_ind : decode [0xA6; 0x90] = None. Proof. vm_compute; reflexivity. Qed.
Example ex_bad_dec1_ind : decode [0xA6; 0xB2] = None. Proof. vm_compute; reflexivity. Qed.
Example ex_bad_0111 : decode [0xA6; 0x87] = None. Proof. vm_compute; reflexivity. Qed.
Example ex_bad_1010 : decode [0xA6; 0x8A] = None. Proof. vm_compute; reflexivity. Qed.
Example ex_bad_1110 : decode [0xA6; 0x9E; 0; 0] = None. Proof. vm_compute; reflexivity. Qed.
Example ex_bad_8F : decode [0xA6; 0x8F; 0; 0] = None. Proof. vm_compute; reflexivity. Qed.
Example ex_bad_BF : decode [0xA6; 0xBF; 0; 0] = None. Proof. vm_compute; reflexivity. Qed.
Example ex_bad_sta_imm : decode [0x87; 0x00] = None. Proof. vm_compute; reflexivity. Qed.
Example ex_bad_opcode_01 : decode [0x01; 0x00] = None. Proof. vm_compute; reflexivity. Qed.
Example ex_bad_4E : decode [0x4E] = None. Proof. vm_compute; reflexivity. Qed.
Example ex_bad_prefix_only : decode [0x10] = None. Proof. vm_compute; reflexivity. Qed.
Example ex_bad_double_prefix : decode [0x10; 0x10; 0x8E; 0; 0] = None. Proof. vm_compute; reflexivity. Qed.
Example ex_bad_page2_lbra : decode [0x10; 0x20; 0; 0] = None. Proof. vm_compute; reflexivity. Qed.
Example ex_bad_truncated : decode [0xCC; 0x12] = None. Proof. vm_compute; reflexivity. Qed.
Example ex_bad_nonbyte : decode [0x86; 256] = None. Proof. vm_compute; reflexivity. Qed.
