(* SpecDisk.v — the Disk BASIC (RS-DOS) image format for a 35-track single-sided disk, written from
   the format description (properties C07/C08/C15), NOT from the tool.
   161,280 bytes = 70 half-tracks of 2304 bytes.  Half-tracks 0..33 are granules 0..33,
   half-tracks 34,35 are track 17 (sector 1 unused, sector 2 = allocation table, sectors 3..11 =
   72 directory entries of 32 bytes, rest unused), half-tracks 36..69 are granules 34..67. *)
From V Require Import Base.
Local Open Scope N_scope.

Definition GR : nat := 2304.

Record disk := { fat : list byte;            (* the 256 bytes of the allocation-table sector *)
                 dir : list (list byte);     (* 72 directory entries, 32 bytes each *)
                 gran : list (list byte);    (* 68 granules, 2304 bytes each *)
                 t17a : list byte;           (* track 17 sector 1 (256 bytes) *)
                 t17z : list byte }.         (* track 17 after the directory (1792 bytes) *)

Fixpoint chunks (k n : nat) (l : list byte) : list (list byte) :=
  match n with O => [] | S n' => firstn k l :: chunks k n' (skipn k l) end.

Definition slice (img : list byte) : disk :=
  let hs := chunks GR 70 img in
  let t17 := nth 34 hs [] ++ nth 35 hs [] in
  {| gran := firstn 34 hs ++ skipn 36 hs;
     t17a := firstn 256 t17;
     fat := firstn 256 (skipn 256 t17);
     dir := chunks 32 72 (skipn 512 t17);
     t17z := skipn 2816 t17 |}.

Definition render (d : disk) : list byte :=
  concat (firstn 34 (gran d)) ++ (t17a d ++ fat d ++ concat (dir d) ++ t17z d) ++ concat (skipn 34 (gran d)).

Definition IMAGE_SIZE : N := 161280.

(* ---- allocation chains ---- *)

Definition fat_at (d : disk) (g : N) : byte := nth (N.to_nat g) (fat d) 255.

(* follow the chain from granule g: Some (granules in chain order, sectors used in the last one).
   A link must be a granule number 0..67; the chain ends at an entry $C0..$C9.
   fuel 68: a chain that revisits a granule never ends and is rejected when the fuel runs out. *)
Fixpoint walk (d : disk) (fuel : nat) (g : N) : option (list N * N) :=
  match fuel with
  | O => None
  | S f =>
      if g <? 68 then
        let e := fat_at d g in
        if (192 <=? e) && (e <=? 201) then Some ([g], e - 192)
        else if e <? 68 then
               match walk d f e with Some (gs, s) => Some (g :: gs, s) | None => None end
             else None
      else None
  end.

(* ---- directory entries ---- *)

Record dentry := { e_name : list byte; e_ext : list byte; e_type : byte; e_ascii : byte;
                   e_first : N; e_lastbytes : N }.

Definition entry_used (e : list byte) : bool :=
  match e with b :: _ => negb ((b =? 0) || (b =? 255)) | [] => false end.

Definition decode_entry (e : list byte) : dentry :=
  {| e_name := firstn 8 e; e_ext := firstn 3 (skipn 8 e);
     e_type := nth 11 e 0; e_ascii := nth 12 e 0; e_first := nth 13 e 0;
     e_lastbytes := word (nth 14 e 0) (nth 15 e 0) |}.

Definition entries (d : disk) : list dentry := map decode_entry (filter entry_used (dir d)).

(* ---- file contents ---- *)

Inductive kind := ML | BASIC | ASCII.
Definition kind_of (ty ascii : byte) : kind :=
  if ty =? 2 then ML else if ascii =? 255 then ASCII else BASIC.

Definition gran_at (d : disk) (g : N) : list byte := nth (N.to_nat g) (gran d) [].

(* the bytes of a chain, in chain order *)
Definition chain_bytes (d : disk) (gs : list N) : list byte := concat (map (gran_at d) gs).

(* length implied by (granules in chain, sectors in last granule, bytes in last sector) *)
Definition implied_len (n : nat) (s b : N) : N :=
  N.of_nat (n - 1) * 2304 + (if s =? 0 then 0 else (s - 1) * 256 + b).

Record dfile := { d_name : list byte; d_ext : list byte; d_type : byte; d_ascii : byte;
                  d_load : N; d_exec : N; d_data : list byte }.

Definition remove_spaces (l : list byte) : list byte := filter (fun b => negb (b =? 32)) l.

(* decode one file from its stream (the chain bytes truncated to the implied length) *)
Definition decode_stream (e : dentry) (stream : list byte) : option dfile :=
  let mk ld ex data := {| d_name := remove_spaces (e_name e); d_ext := e_ext e; d_type := e_type e;
                          d_ascii := e_ascii e; d_load := ld; d_exec := ex; d_data := data |} in
  match kind_of (e_type e) (e_ascii e) with
  | ML =>
      match stream with
      | z :: lh :: ll :: ah :: al :: rest =>
          let n := N.to_nat (word lh ll) in
          match skipn n rest with
          | [p0; p1; p2; eh; el] =>
              if (z =? 0) && (p0 =? 255) && (p1 =? 0) && (p2 =? 0) && Nat.eqb (length (firstn n rest)) n
              then Some (mk (word ah al) (word eh el) (firstn n rest)) else None
          | _ => None
          end
      | _ => None
      end
  | BASIC =>
      match stream with
      | z :: lh :: ll :: rest =>
          if (z =? 255) && Nat.eqb (length rest) (N.to_nat (word lh ll)) then Some (mk 0 0 rest) else None
      | _ => None
      end
  | ASCII => Some (mk 0 0 stream)
  end.

Definition file_of_entry (d : disk) (e : dentry) : option (dfile * list N) :=
  match walk d 68 (e_first e) with
  | Some (gs, s) =>
      if (e_lastbytes e <=? 256) && ((negb (s =? 0)) || (e_lastbytes e =? 0))
         && (implied_len 1 s (e_lastbytes e) <=? 2304) then
        let len := implied_len (length gs) s (e_lastbytes e) in
        match decode_stream e (firstn (N.to_nat len) (chain_bytes d gs)) with
        | Some f => Some (f, gs)
        | None => None
        end
      else None
  | None => None
  end.

Fixpoint all_some {A} (l : list (option A)) : option (list A) :=
  match l with
  | [] => Some []
  | Some a :: r => match all_some r with Some r' => Some (a :: r') | None => None end
  | None :: _ => None
  end.

Fixpoint nodupb (l : list N) : bool :=
  match l with [] => true | x :: r => negb (existsb (N.eqb x) r) && nodupb r end.

Definition all_ff (l : list byte) : bool := forallb (N.eqb 255) l.

(* the consistency check on a sliced image *)
Definition fsck_disk (d : disk) : bool :=
  match all_some (map (file_of_entry d) (entries d)) with
  | None => false
  | Some fcs =>
      let used := concat (map snd fcs) in
      nodupb used                                                         (* chains disjoint, no revisit *)
      && forallb (fun g => (fat_at d g =? 255) || existsb (N.eqb g) used)  (* every non-free entry on a chain *)
                 (map N.of_nat (seq 0 68))
      && forallb (fun g => existsb (N.eqb g) used || all_ff (gran_at d g))   (* unallocated granules are blank *)
                 (map N.of_nat (seq 0 68))
      && all_ff (t17a d) && all_ff (t17z d)                                 (* nothing outside FAT/dir sectors *)
  end.

Definition fsck (img : list byte) : bool :=
  (N.of_nat (length img) =? IMAGE_SIZE) && fsck_disk (slice img).

(* the spec view of an image: the files it contains, in directory order *)
Definition files_disk (d : disk) : option (list dfile) :=
  match all_some (map (file_of_entry d) (entries d)) with
  | Some fcs => Some (map fst fcs)
  | None => None
  end.
Definition files (img : list byte) : option (list dfile) := files_disk (slice img).

Definition free_granules (d : disk) : nat :=
  length (filter (fun g => fat_at d g =? 255) (map N.of_nat (seq 0 68))).
