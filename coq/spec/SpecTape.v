(* SpecTape.v — the CoCo cassette stream format, written from the format description
   (property C14's text), NOT from the tool: a checksum-verifying parser.
   A stream is, per file:  leader , name-file block (type 0, exactly 15 payload bytes) ,
   leader , data blocks (type 1, 1..255 payload bytes, optional gaps between them) ,
   end-of-file block (type $FF, empty payload).  Every block is
     $55 $3C type len payload checksum $55,  len = |payload|,
     checksum = (type + len + sum payload) mod 256. *)
From V Require Import Base.
Local Open Scope N_scope.

Record cfile := { c_name : list byte; c_type : byte; c_dtype : byte;
                  c_load : N; c_exec : N; c_data : list byte }.

(* one framed block: returns (type, payload, rest) *)
Definition parse_block (bs : list byte) : option (byte * list byte * list byte) :=
  match bs with
  | 85 :: 60 :: ty :: len :: rest =>
      let n := N.to_nat len in
      let pl := firstn n rest in
      match skipn n rest with
      | ck :: 85 :: rest' =>
          if (Nat.eqb (length pl) n) && (len <? 256) && (ck =? (ty + len + sumN pl) mod 256)
          then Some (ty, pl, rest') else None
      | _ => None
      end
  | _ => None
  end.

(* gap / leader: a run of $00 and $55 bytes that stops where a block frame ($55 $3C) starts.
   Returns (a $55 was seen, rest). *)
Fixpoint strip_gap (seen : bool) (bs : list byte) : bool * list byte :=
  match bs with
  | [] => (seen, [])
  | x :: r =>
      if x =? 0 then strip_gap seen r
      else if x =? 85 then
             match r with
             | 60 :: _ => (seen, bs)
             | _ => strip_gap true r
             end
           else (seen, bs)
  end.

(* data blocks then the EOF block; fuel bounds the number of blocks *)
Definition parse_data_step (rec : list byte -> option (list byte * list byte)) (bs : list byte)
  : option (list byte * list byte) :=
  match parse_block (snd (strip_gap false bs)) with
  | Some (1, pl, rest) =>
      match pl with
      | [] => None
      | _ => match rec rest with Some (d, r) => Some (pl ++ d, r) | None => None end
      end
  | Some (255, [], rest) => Some ([], rest)
  | _ => None
  end.
Fixpoint parse_data (fuel : nat) (bs : list byte) : option (list byte * list byte) :=
  match fuel with O => None | S f => parse_data_step (parse_data f) bs end.

(* the 15 payload bytes of a name-file block *)
Definition decode_header (pl : list byte) : option (list byte * byte * byte * byte * N * N) :=
  match pl with
  | [n0;n1;n2;n3;n4;n5;n6;n7; ty; dt; gap; lh; ll; eh; el] =>
      Some ([n0;n1;n2;n3;n4;n5;n6;n7], ty, dt, gap, word lh ll, word eh el)
  | _ => None
  end.

(* one file; the gap flag is returned beside the file *)
Definition parse_file (bs : list byte) : option (cfile * byte * list byte) :=
  match strip_gap false bs with
  | (true, bs1) =>
      match parse_block bs1 with
      | Some (0, pl, rest) =>
          match decode_header pl with
          | Some (nm, ty, dt, gap, ld, ex) =>
              match strip_gap false rest with
              | (true, bs2) =>
                  match parse_data (S (length bs2)) bs2 with
                  | Some (d, rest') =>
                      Some ({| c_name := nm; c_type := ty; c_dtype := dt;
                               c_load := ld; c_exec := ex; c_data := d |}, gap, rest')
                  | None => None
                  end
              | _ => None
              end
          | None => None
          end
      | _ => None
      end
  | _ => None
  end.

Definition parse_step (rec : list byte -> option (list (cfile * byte))) (bs : list byte)
  : option (list (cfile * byte)) :=
  match snd (strip_gap false bs) with
  | [] => Some []
  | _ => match parse_file bs with
         | Some (f, gap, rest) => match rec rest with Some l => Some ((f, gap) :: l) | None => None end
         | None => None
         end
  end.
Fixpoint parse_fuel (fuel : nat) (bs : list byte) : option (list (cfile * byte)) :=
  match fuel with O => None | S f => parse_step (parse_fuel f) bs end.

(* the spec view of a tape: the files it holds, or None if it is not a well-formed stream *)
Definition parse (bs : list byte) : option (list (cfile * byte)) := parse_fuel (S (length bs)) bs.
