(* Extract.v — extraction of the executable model and the spec oracles to OCaml.
   ExtrOcamlBasic only (bool, option, list, prod, unit, sumbool -> OCaml natives);
   N / Z / positive / nat stay the extracted inductive datatypes.
   The x_* aliases give the driver stable names. *)
From V Require Import Base.
From V.spec Require Import SpecTape SpecDisk.
From V.model Require Import MCassette MDisk.
From V.model Require MText MValues MOperands MProgram.
From V.spec Require Spec6809.
From V.model Require MVirtualFile.
From V.model Require MCli.
From Coq Require Import Extraction ExtrOcamlBasic.
Extraction Language OCaml.

Definition x_cas_write := MCassette.write.
Definition x_cas_parse := SpecTape.parse.
Definition x_cas_list := MCassette.list_files.

Definition x_dsk_add := MDisk.add_files.
Definition x_dsk_image := MDisk.image_of.
Definition x_dsk_fsck := SpecDisk.fsck.
Definition x_dsk_files := SpecDisk.files.
Definition x_dsk_list := MDisk.list_files.
Definition x_dsk_free (img : list byte) := SpecDisk.free_granules (SpecDisk.slice img).
Definition x_dsk_needed := MDisk.needed.
Definition x_dsk_default_order := MDisk.default_order.
Definition x_dsk_layout_ok := MDisk.layout_constants_ok.

Definition x_asm := MProgram.assemble.
Definition x_v_int := MValues.v_int.
Definition x_decode := Spec6809.decode.
Definition x_canon := Spec6809.canon.
Definition x_regpair_legal := Spec6809.regpair_legal.
Definition x_opcode_entry := Spec6809.opcode_entry.
Definition x_all_opcodes := Spec6809.all_opcodes.

Definition x_vf_sniff := MVirtualFile.sniff.
Definition x_vf_store := MVirtualFile.store.
Definition x_vf_convert := MVirtualFile.convert.
Definition x_vf_image_after := MVirtualFile.image_after.
Definition x_vf_file_util := MVirtualFile.file_util.
Definition x_vf_asm_save := MVirtualFile.asm_save.
Definition x_cli_main := MCli.assembler_main.

Extraction "model.ml"
  x_vf_sniff x_vf_store x_vf_convert x_vf_image_after x_vf_file_util x_vf_asm_save x_cli_main
  x_asm x_v_int x_decode x_canon x_regpair_legal x_opcode_entry x_all_opcodes
  x_cas_write x_cas_parse x_cas_list
  x_dsk_add x_dsk_image x_dsk_fsck x_dsk_files x_dsk_list x_dsk_free x_dsk_needed x_dsk_default_order x_dsk_layout_ok.
