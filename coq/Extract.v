(* Extract.v — extraction of the executable model and the spec oracles to OCaml.
   ExtrOcamlBasic only (bool, option, list, prod, unit, sumbool -> OCaml natives);
   N / Z / positive / nat stay the extracted inductive datatypes. *)
From V Require Import Base.
From V.spec Require Import SpecTape.
From V.model Require Import MCassette.
From Coq Require Import Extraction ExtrOcamlBasic.
Extraction Language OCaml.
Extraction "model.ml"
  SpecTape.parse MCassette.write MCassette.list_files MCassette.norm.
